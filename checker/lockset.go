package main

// lockset.go (analysis A4): must-hold lockset per instruction.

import (
	"fmt"
	"go/token"
	"go/types"
	"sort"
	"strings"

	"golang.org/x/tools/go/ssa"
)

// LockKey identifies a mutex by the SSA value at the root of the receiver
// expression and the field path from it ("" for the value itself, which is
// also used for an embedded sync.Mutex: x.Lock() ≡ x.Mutex.Lock()).
type LockKey struct {
	Root ssa.Value
	Path string
}

func (k LockKey) String() string {
	n := "?"
	if k.Root != nil {
		n = k.Root.Name()
		if p, ok := k.Root.(*ssa.Parameter); ok {
			n = p.Name()
		}
		if g, ok := k.Root.(*ssa.Global); ok {
			n = g.Name()
		}
		if fv, ok := k.Root.(*ssa.FreeVar); ok {
			n = fv.Name()
		}
	}
	if k.Path != "" {
		return n + "." + k.Path
	}
	return n
}

// accessPath normalises a pointer-valued expression to (root, field path).
// Embedded Mutex / RWMutex fields are elided so that x.Lock() and
// x.Mutex.Lock() agree.
func accessPath(v ssa.Value) LockKey {
	var parts []string
	for {
		switch x := v.(type) {
		case *ssa.FieldAddr:
			f, _ := fieldOf(x)
			if !(f.Embedded() && isMutexType(f.Type())) {
				parts = append([]string{f.Name()}, parts...)
			}
			v = x.X
			continue
		case *ssa.Field:
			f, _ := fieldOf(x)
			parts = append([]string{f.Name()}, parts...)
			v = x.X
			continue
		case *ssa.UnOp:
			if x.Op == token.MUL {
				// load of a pointer held in a field/alloc: *(&x.f)
				if fa, ok := x.X.(*ssa.FieldAddr); ok {
					f, _ := fieldOf(fa)
					parts = append([]string{f.Name()}, parts...)
					v = fa.X
					continue
				}
				if al, ok := x.X.(*ssa.Alloc); ok {
					// local variable cell: a spilled parameter is the parameter;
					// otherwise identity = the cell
					if cv := cellValue(al); cv != nil {
						v = cv
						continue
					}
					v = al
				}
				if fv, ok := x.X.(*ssa.FreeVar); ok {
					// captured cell: resolve to the enclosing function's cell / parameter
					if b := (&apWalker{}).freeVarBinding(fv); b != nil {
						if al, ok := b.(*ssa.Alloc); ok {
							if cv := cellValue(al); cv != nil {
								v = cv
								continue
							}
							v = al
						}
					}
				}
			}
		case *ssa.ChangeType:
			v = x.X
			continue
		}
		break
	}
	return LockKey{Root: v, Path: strings.Join(parts, ".")}
}

func isMutexType(t types.Type) bool {
	return namedIs(t, "sync", "Mutex") || namedIs(t, "sync", "RWMutex")
}

// lockOp: is the call a Lock/Unlock on a sync mutex; returns the receiver.
func lockOp(c ssa.CallInstruction) (recv ssa.Value, op string) {
	f := staticCallee(c)
	if f == nil || f.Signature.Recv() == nil {
		return nil, ""
	}
	if !isMutexType(f.Signature.Recv().Type()) {
		return nil, ""
	}
	switch f.Name() {
	case "Lock", "RLock":
		return c.Common().Args[0], "lock"
	case "Unlock", "RUnlock":
		return c.Common().Args[0], "unlock"
	}
	return nil, ""
}

type lockState map[LockKey]bool

func (s lockState) clone() lockState {
	o := lockState{}
	for k := range s {
		o[k] = true
	}
	return o
}

func intersect(a, b lockState) lockState {
	o := lockState{}
	for k := range a {
		if b[k] {
			o[k] = true
		}
	}
	return o
}

func equalState(a, b lockState) bool {
	if len(a) != len(b) {
		return false
	}
	for k := range a {
		if !b[k] {
			return false
		}
	}
	return true
}

// Locksets computes, for every instruction of fn, the set of locks that are
// held on every path reaching it (before the instruction executes).
// entry: locks assumed held on entry (caller summary).
func Locksets(fn *ssa.Function, entry lockState) map[ssa.Instruction]lockState {
	in := map[*ssa.BasicBlock]lockState{}
	if entry == nil {
		entry = lockState{}
	}
	in[fn.Blocks[0]] = entry.clone()
	res := map[ssa.Instruction]lockState{}
	work := []*ssa.BasicBlock{fn.Blocks[0]}
	transfer := func(b *ssa.BasicBlock, record bool) lockState {
		st := in[b].clone()
		for _, ins := range b.Instrs {
			if record {
				res[ins] = st.clone()
			}
			switch c := ins.(type) {
			case *ssa.Call:
				if r, op := lockOp(c); op != "" {
					k := accessPath(r)
					if op == "lock" {
						st[k] = true
					} else {
						delete(st, k)
					}
					break
				}
				// a helper that returns with a lock on (something reached from) one of its parameters held
				// on every path: the lock is held after the call (lockBlock(b, hash))
				if h := staticCallee(c); h != nil && h.Blocks != nil && isRepoFunc(h) {
					for _, ak := range acquiresOnReturn(h) {
						if ak.param < len(c.Call.Args) {
							base := accessPath(c.Call.Args[ak.param])
							st[LockKey{Root: base.Root, Path: joinPath(base.Path, ak.path)}] = true
						}
					}
					// … or with the lock of what it hands back held on every return that is not an error
					// (`b, err := bm.locked(n)`): held on the result after the call
					if resultLockedOnReturn(h) {
						var res ssa.Value = c
						if tup, isTup := c.Type().(*types.Tuple); isTup && tup.Len() > 1 {
							res = extractOf(c, 0)
						}
						if res != nil {
							st[LockKey{Root: res, Path: ""}] = true
						}
					}
					break
				}
				// the unlock handed back by such a helper and called later: unlock := lockBlock(b, …); …; unlock()
				if k, ok := boundUnlockTarget(c); ok {
					delete(st, k)
				}
			case *ssa.Defer:
				// deferred unlock: held until exit; deferred lock: ignored
			}
		}
		return st
	}
	for len(work) > 0 {
		b := work[0]
		work = work[1:]
		out := transfer(b, false)
		for _, s := range b.Succs {
			old, ok := in[s]
			var nw lockState
			if !ok {
				nw = out.clone()
			} else {
				nw = intersect(old, out)
			}
			if !ok || !equalState(old, nw) {
				in[s] = nw
				work = append(work, s)
			}
		}
	}
	for _, b := range fn.Blocks {
		if _, ok := in[b]; ok {
			transfer(b, true)
		}
	}
	return res
}

func stateString(s lockState) string {
	var ks []string
	for k := range s {
		ks = append(ks, k.String())
	}
	sort.Strings(ks)
	return "{" + strings.Join(ks, ",") + "}"
}

// holdsLockOn: state contains a lock whose root is `root` (any path) or
// exactly key.
func holdsKey(s lockState, k LockKey) bool { return s[k] }

// lockOracle answers "is the mutex guarding base held at this instruction",
// using (1) the function's own must-hold lockset, (2) a caller summary when
// the guarded object is a parameter (every caller holds the lock on the
// argument), and (3) fork-join inheritance (forkJoinHolds).
type lockOracle struct {
	res   *Resolver
	cache map[*ssa.Function]map[ssa.Instruction]lockState
}

func newLockOracle(res *Resolver) *lockOracle {
	return &lockOracle{res: res, cache: map[*ssa.Function]map[ssa.Instruction]lockState{}}
}

func (o *lockOracle) locks(fn *ssa.Function) map[ssa.Instruction]lockState {
	if v, ok := o.cache[fn]; ok {
		return v
	}
	v := Locksets(fn, nil)
	o.cache[fn] = v
	return v
}

func joinPath(a, b string) string {
	switch {
	case a == "":
		return b
	case b == "":
		return a
	}
	return a + "." + b
}

// HeldAt: mutex is the name of the guarding mutex field of the struct base
// points to ("" = base itself is / embeds the mutex).
func (o *lockOracle) HeldAt(fn *ssa.Function, in ssa.Instruction, base ssa.Value, mutex string) (bool, string) {
	k := accessPath(base)
	k.Path = joinPath(k.Path, mutex)
	return o.heldKey(fn, in, k, 0)
}

func (o *lockOracle) heldKey(fn *ssa.Function, in ssa.Instruction, k LockKey, depth int) (bool, string) {
	st := o.locks(fn)[in]
	if st[k] {
		return true, "holds " + k.String()
	}
	if ok, why := o.forkJoinHolds(fn, in, k); ok {
		return true, why
	}
	// caller summary: base rooted at a parameter
	if p, ok := k.Root.(*ssa.Parameter); ok && p.Parent() == fn && depth < 3 {
		callers := o.res.CallersOf(fn)
		if len(callers) == 0 {
			return false, "lockset " + stateString(st) + ", no callers to summarise"
		}
		for _, cs := range callers {
			args := cs.Common().Args
			idx := paramIndex(p)
			if cs.Common().IsInvoke() {
				idx--
			}
			if idx < 0 || idx >= len(args) {
				return false, "caller arity"
			}
			// the caller must hold the same relative path on its argument
			ck := accessPath(args[idx])
			ckey := LockKey{ck.Root, joinPath(ck.Path, k.Path)}
			if _, isGo := cs.(*ssa.Go); isGo {
				return false, fmt.Sprintf("lockset %s; started as a goroutine by %s", stateString(st), fnName(cs.Parent()))
			}
			if ok, _ := o.heldKey(cs.Parent(), cs, ckey, depth+1); !ok {
				return false, fmt.Sprintf("lockset %s; caller %s does not hold the lock either (%s)", stateString(st), fnName(cs.Parent()), stateString(o.locks(cs.Parent())[cs]))
			}
		}
		return true, "every caller holds the lock (summary)"
	}
	return false, "lockset here " + stateString(st)
}

// forkJoinHolds: fn is a function literal whose only use is a `go`
// statement of its enclosing function, executed while the enclosing function
// holds key; the enclosing function then waits for the goroutine
// (WaitGroup.Wait on every path from the go statement to every exit, lock
// still held at the Wait, Add before the go statement), and inside fn the
// instruction `at` cannot run after the Done that lets the parent continue.
// Then the goroutine's accesses are ordered between the parent's Lock and
// Unlock exactly as if it held the lock (fork-join inside the critical
// section).
func (o *lockOracle) forkJoinHolds(fn *ssa.Function, at ssa.Instruction, k LockKey) (bool, string) {
	parent := fn.Parent()
	if parent == nil {
		return false, ""
	}
	// the key must be rooted in the enclosing function (captured variable)
	switch r := k.Root.(type) {
	case *ssa.Parameter:
		if r.Parent() != parent {
			return false, ""
		}
	case *ssa.Alloc:
		if r.Parent() != parent {
			return false, ""
		}
	default:
		return false, ""
	}
	var mc *ssa.MakeClosure
	allInstrs(parent, func(in ssa.Instruction) {
		if m, ok := in.(*ssa.MakeClosure); ok && m.Fn == ssa.Value(fn) {
			mc = m
		}
	})
	if mc == nil {
		return false, ""
	}
	var spawn *ssa.Go
	for _, ref := range *mc.Referrers() {
		switch x := ref.(type) {
		case *ssa.DebugRef:
		case *ssa.Go:
			if x.Call.Value != ssa.Value(mc) || spawn != nil {
				return false, ""
			}
			spawn = x
		default:
			return false, ""
		}
	}
	if spawn == nil {
		return false, ""
	}
	if !o.locks(parent)[spawn][k] {
		return false, ""
	}
	wgRoot := func(c ssa.CallInstruction, name string) ssa.Value {
		f := staticCallee(c)
		if f == nil || f.Name() != name || f.Signature.Recv() == nil || !namedIs(f.Signature.Recv().Type(), "sync", "WaitGroup") {
			return nil
		}
		rk := accessPath(c.Common().Args[0])
		if rk.Path != "" {
			return nil
		}
		if fv, ok := rk.Root.(*ssa.FreeVar); ok {
			return (&apWalker{}).freeVarBinding(fv)
		}
		return rk.Root
	}
	// Done calls of the goroutine identify the wait group
	var wg ssa.Value
	okDone := true
	nDone := 0
	for _, c := range callsIn(fn) {
		r := wgRoot(c, "Done")
		if r == nil {
			continue
		}
		nDone++
		if wg != nil && wg != r {
			okDone = false
		}
		wg = r
		if _, isDefer := c.(*ssa.Defer); isDefer {
			continue
		}
		if c == at {
			continue
		}
		if hit, _ := reach(siteOf(c), isInstr(at), nil); hit {
			okDone = false // the access may run after the parent was released
		}
	}
	if wg == nil || !okDone || nDone == 0 {
		return false, ""
	}
	// parent: Add dominates the go statement; Wait on every path to every exit, lock held there
	addOK := false
	cuts := newCuts()
	waitsHold := true
	for _, c := range callsIn(parent) {
		if r := wgRoot(c, "Add"); r == wg && dominatesInstr(c, spawn) {
			addOK = true
		}
		if r := wgRoot(c, "Wait"); r == wg {
			if _, isCall := c.(*ssa.Call); !isCall {
				continue
			}
			cuts.addInstr(c)
			if !o.locks(parent)[c][k] {
				waitsHold = false
			}
		}
	}
	if !addOK || !waitsHold || len(cuts.Instrs) == 0 {
		return false, ""
	}
	if hit, _ := reach(siteOf(spawn), isExit, cuts); hit {
		return false, ""
	}
	return true, fmt.Sprintf("goroutine forked and joined (WaitGroup) by %s inside its critical section on %s", fnName(parent), k.String())
}

type acquireKey struct {
	param int
	path  string
}

var acquireMemo = map[*ssa.Function][]acquireKey{}
var acquireBusy = map[*ssa.Function]bool{}

// acquiresOnReturn: the locks, rooted at h's parameters, that h holds at every return and did not hold on entry.
func acquiresOnReturn(h *ssa.Function) []acquireKey {
	if v, ok := acquireMemo[h]; ok {
		return v
	}
	if acquireBusy[h] {
		return nil
	}
	acquireBusy[h] = true
	defer delete(acquireBusy, h)
	// cheap pre-check: h locks something itself
	locks := false
	for _, ci := range callsIn(h) {
		if _, op := lockOp(ci); op == "lock" {
			locks = true
		}
	}
	if !locks {
		acquireMemo[h] = nil
		return nil
	}
	ls := Locksets(h, nil)
	var held lockState
	n := 0
	for _, r := range returnsOf(h) {
		// the state AFTER the instructions before the return = state recorded at the return
		st := ls[r]
		n++
		if held == nil {
			held = st.clone()
		} else {
			held = intersect(held, st)
		}
	}
	// deferred unlocks release at exit
	for _, ci := range callsIn(h) {
		if d, isDefer := ci.(*ssa.Defer); isDefer {
			if r, op := lockOp(d); op == "unlock" {
				delete(held, accessPath(r))
			}
		}
	}
	var out []acquireKey
	for k := range held {
		if p, ok := k.Root.(*ssa.Parameter); ok && p.Parent() == h && n > 0 {
			out = append(out, acquireKey{paramIndex(p), k.Path})
		}
	}
	sort.Slice(out, func(i, j int) bool {
		return out[i].param < out[j].param || (out[i].param == out[j].param && out[i].path < out[j].path)
	})
	acquireMemo[h] = out
	return out
}

// boundUnlockTarget: c calls a function value that is the Unlock method value of a mutex reached
// from a parameter of the helper that returned it: the lock key at the helper's call site.
func boundUnlockTarget(c *ssa.Call) (LockKey, bool) {
	if c.Call.IsInvoke() || staticCallee(c) != nil {
		return LockKey{}, false
	}
	v := stripConv(c.Call.Value)
	if u, ok := v.(*ssa.UnOp); ok && u.Op == token.MUL {
		if al, ok := u.X.(*ssa.Alloc); ok {
			if cv := cellValue(al); cv != nil {
				v = stripConv(cv)
			}
		}
	}
	// directly a bound method value made here: mu.Unlock kept in a variable
	if mc, ok := v.(*ssa.MakeClosure); ok {
		if k, ok := unlockClosureKey(mc); ok {
			return k, true
		}
		return LockKey{}, false
	}
	hc, ok := v.(*ssa.Call)
	if !ok {
		return LockKey{}, false
	}
	h := staticCallee(hc)
	if h == nil || h.Blocks == nil {
		return LockKey{}, false
	}
	var key *LockKey
	for _, r := range returnsOf(h) {
		mc, ok := stripConv(returnValues(r)[0]).(*ssa.MakeClosure)
		if !ok {
			return LockKey{}, false
		}
		k, ok := unlockClosureKey(mc)
		if !ok {
			return LockKey{}, false
		}
		p, isP := k.Root.(*ssa.Parameter)
		if !isP || p.Parent() != h || paramIndex(p) >= len(hc.Call.Args) {
			return LockKey{}, false
		}
		base := accessPath(hc.Call.Args[paramIndex(p)])
		kk := LockKey{Root: base.Root, Path: joinPath(base.Path, k.Path)}
		if key != nil && *key != kk {
			return LockKey{}, false
		}
		key = &kk
	}
	if key == nil {
		return LockKey{}, false
	}
	return *key, true
}

// unlockClosureKey: mc is the method value X.Unlock / X.RUnlock of a mutex: the key of X
func unlockClosureKey(mc *ssa.MakeClosure) (LockKey, bool) {
	f, ok := mc.Fn.(*ssa.Function)
	if !ok || f.Synthetic == "" || len(mc.Bindings) != 1 {
		return LockKey{}, false
	}
	for _, ci := range callsIn(f) {
		if _, op := lockOp(ci); op == "unlock" {
			return accessPath(mc.Bindings[0]), true
		}
		// promoted through an embedded mutex: the wrapper calls (*T).Unlock which is itself a wrapper
		if cal := staticCallee(ci); cal != nil && (cal.Name() == "Unlock" || cal.Name() == "RUnlock") {
			return accessPath(mc.Bindings[0]), true
		}
	}
	return LockKey{}, false
}

var resultLockMemo = map[*ssa.Function]int{}

// resultLockedOnReturn: at every return of h that does not report a definite error, a lock rooted at the
// value returned as result #0 is held (and was not released by a deferred unlock)
func resultLockedOnReturn(h *ssa.Function) bool {
	if v, ok := resultLockMemo[h]; ok {
		return v == 1
	}
	resultLockMemo[h] = 0
	locks := false
	for _, ci := range callsIn(h) {
		if _, op := lockOp(ci); op == "lock" {
			locks = true
		}
		if d, isDefer := ci.(*ssa.Defer); isDefer {
			if _, op := lockOp(d); op == "unlock" {
				return false
			}
		}
	}
	if !locks || h.Signature.Results().Len() == 0 {
		return false
	}
	ls := Locksets(h, nil)
	n := 0
	for _, r := range returnsOf(h) {
		vals := returnValues(r)
		if len(vals) == 0 {
			return false
		}
		if last := vals[len(vals)-1]; len(vals) > 1 && isErrorType(last.Type()) && definitelyNonNilError(last, nil) {
			continue
		}
		if isNilConst(vals[0]) {
			continue
		}
		n++
		root := accessPath(vals[0])
		if !ls[r][LockKey{Root: root.Root, Path: root.Path}] {
			return false
		}
	}
	if n > 0 {
		resultLockMemo[h] = 1
	}
	return n > 0
}
