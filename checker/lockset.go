package main

// lockset.go (analysis A4): must-hold lockset per instruction.

import (
	"go/token"
	"go/types"
	"sort"
	"strings"

	"golang.org/x/tools/go/ssa"
)

// LockKey identifies a mutex by the SSA value at the root of the receiver
// expression and the field path from it ("" for the value itself, which is
// also used for an embedded sync.Mutex: x.Lock() ≡ x.Mutex.Lock()).
type LockKey struct {
	Root ssa.Value
	Path string
}

func (k LockKey) String() string {
	n := "?"
	if k.Root != nil {
		n = k.Root.Name()
		if p, ok := k.Root.(*ssa.Parameter); ok {
			n = p.Name()
		}
		if g, ok := k.Root.(*ssa.Global); ok {
			n = g.Name()
		}
		if fv, ok := k.Root.(*ssa.FreeVar); ok {
			n = fv.Name()
		}
	}
	if k.Path != "" {
		return n + "." + k.Path
	}
	return n
}

// accessPath normalises a pointer-valued expression to (root, field path).
// Embedded Mutex / RWMutex fields are elided so that x.Lock() and
// x.Mutex.Lock() agree.
func accessPath(v ssa.Value) LockKey {
	var parts []string
	for {
		switch x := v.(type) {
		case *ssa.FieldAddr:
			f, _ := fieldOf(x)
			if !(f.Embedded() && isMutexType(f.Type())) {
				parts = append([]string{f.Name()}, parts...)
			}
			v = x.X
			continue
		case *ssa.Field:
			f, _ := fieldOf(x)
			parts = append([]string{f.Name()}, parts...)
			v = x.X
			continue
		case *ssa.UnOp:
			if x.Op == token.MUL {
				// load of a pointer held in a field/alloc: *(&x.f)
				if fa, ok := x.X.(*ssa.FieldAddr); ok {
					f, _ := fieldOf(fa)
					parts = append([]string{f.Name()}, parts...)
					v = fa.X
					continue
				}
				if al, ok := x.X.(*ssa.Alloc); ok {
					// local variable cell: a spilled parameter is the parameter;
					// otherwise identity = the cell
					if cv := cellValue(al); cv != nil {
						v = cv
						continue
					}
					v = al
				}
				if fv, ok := x.X.(*ssa.FreeVar); ok {
					// captured cell: resolve to the enclosing function's cell / parameter
					if b := (&apWalker{}).freeVarBinding(fv); b != nil {
						if al, ok := b.(*ssa.Alloc); ok {
							if cv := cellValue(al); cv != nil {
								v = cv
								continue
							}
							v = al
						}
					}
				}
			}
		case *ssa.ChangeType:
			v = x.X
			continue
		}
		break
	}
	return LockKey{Root: v, Path: strings.Join(parts, ".")}
}

func isMutexType(t types.Type) bool {
	return namedIs(t, "sync", "Mutex") || namedIs(t, "sync", "RWMutex")
}

// lockOp: is the call a Lock/Unlock on a sync mutex; returns the receiver.
func lockOp(c ssa.CallInstruction) (recv ssa.Value, op string) {
	f := staticCallee(c)
	if f == nil || f.Signature.Recv() == nil {
		return nil, ""
	}
	if !isMutexType(f.Signature.Recv().Type()) {
		return nil, ""
	}
	switch f.Name() {
	case "Lock", "RLock":
		return c.Common().Args[0], "lock"
	case "Unlock", "RUnlock":
		return c.Common().Args[0], "unlock"
	}
	return nil, ""
}

type lockState map[LockKey]bool

func (s lockState) clone() lockState {
	o := lockState{}
	for k := range s {
		o[k] = true
	}
	return o
}

func intersect(a, b lockState) lockState {
	o := lockState{}
	for k := range a {
		if b[k] {
			o[k] = true
		}
	}
	return o
}

func equalState(a, b lockState) bool {
	if len(a) != len(b) {
		return false
	}
	for k := range a {
		if !b[k] {
			return false
		}
	}
	return true
}

// Locksets computes, for every instruction of fn, the set of locks that are
// held on every path reaching it (before the instruction executes).
// entry: locks assumed held on entry (caller summary).
func Locksets(fn *ssa.Function, entry lockState) map[ssa.Instruction]lockState {
	in := map[*ssa.BasicBlock]lockState{}
	if entry == nil {
		entry = lockState{}
	}
	in[fn.Blocks[0]] = entry.clone()
	res := map[ssa.Instruction]lockState{}
	work := []*ssa.BasicBlock{fn.Blocks[0]}
	transfer := func(b *ssa.BasicBlock, record bool) lockState {
		st := in[b].clone()
		for _, ins := range b.Instrs {
			if record {
				res[ins] = st.clone()
			}
			switch c := ins.(type) {
			case *ssa.Call:
				if r, op := lockOp(c); op != "" {
					k := accessPath(r)
					if op == "lock" {
						st[k] = true
					} else {
						delete(st, k)
					}
				}
			case *ssa.Defer:
				// deferred unlock: held until exit; deferred lock: ignored
			}
		}
		return st
	}
	for len(work) > 0 {
		b := work[0]
		work = work[1:]
		out := transfer(b, false)
		for _, s := range b.Succs {
			old, ok := in[s]
			var nw lockState
			if !ok {
				nw = out.clone()
			} else {
				nw = intersect(old, out)
			}
			if !ok || !equalState(old, nw) {
				in[s] = nw
				work = append(work, s)
			}
		}
	}
	for _, b := range fn.Blocks {
		if _, ok := in[b]; ok {
			transfer(b, true)
		}
	}
	return res
}

func stateString(s lockState) string {
	var ks []string
	for k := range s {
		ks = append(ks, k.String())
	}
	sort.Strings(ks)
	return "{" + strings.Join(ks, ",") + "}"
}

// holdsLockOn: state contains a lock whose root is `root` (any path) or
// exactly key.
func holdsKey(s lockState, k LockKey) bool { return s[k] }
