package main

// region.go: an "inlined view" of a function.
//
// Most rules are relations between a handful of instructions of one anchor
// function: this call dominates that one, this store is guarded by that test,
// this argument is that expression.  The commonest harmless edit moves some
// of those instructions into a helper (extract function, method on the
// receiver, function literal bound to a local).  A Region is the anchor
// function plus the repo functions it calls statically (transitively, to a
// small depth), each reachable through exactly one call site of the region;
// positions inside a helper are *lifted* to that call site, so that the
// relations can be evaluated as if the helper's body stood at the call.
//
//	Dominates(a, b)   a is executed before b on every path to b
//	Guarded(s, edges) every path to s crosses one of the edges (edges may be in any function of the region)
//	Resolve(v)        parameters of an inlined helper -> the argument at its call site;
//	                  results of a call to an inlined helper -> the returned values
//
// Functions called from several sites of the region, recursive ones, and
// anything outside the repo are not inlined; they stay ordinary calls.

import (
	"go/types"

	"golang.org/x/tools/go/ssa"
)

type Region struct {
	Root  *ssa.Function
	site  map[*ssa.Function]ssa.CallInstruction // inlined callee -> its unique call site in the region
	order []*ssa.Function
}

const regionDepth = 3

// calleeOf: the repo function a call instruction statically invokes
// (direct call, method call, or a call of a function literal bound once to a local).
func regionCallee(ci ssa.CallInstruction) *ssa.Function {
	if f := staticCallee(ci); f != nil && f.Blocks != nil {
		return f
	}
	if ci.Common().IsInvoke() {
		return nil
	}
	// call through a local that holds one function literal
	v := ci.Common().Value
	for i := 0; i < 4; i++ {
		switch x := v.(type) {
		case *ssa.MakeClosure:
			return x.Fn.(*ssa.Function)
		case *ssa.Function:
			if x.Blocks != nil {
				return x
			}
			return nil
		case *ssa.UnOp:
			if al, ok := x.X.(*ssa.Alloc); ok {
				if cv := cellValue(al); cv != nil {
					v = cv
					continue
				}
			}
			if fv, ok := x.X.(*ssa.FreeVar); ok {
				if b := (&apWalker{}).freeVarBinding(fv); b != nil {
					if al, ok := b.(*ssa.Alloc); ok {
						if cv := cellValue(al); cv != nil {
							v = cv
							continue
						}
					}
				}
			}
			return nil
		case *ssa.ChangeType:
			v = x.X
			continue
		}
		break
	}
	return nil
}

func NewRegion(root *ssa.Function) *Region {
	r := &Region{Root: root, site: map[*ssa.Function]ssa.CallInstruction{}}
	count := map[*ssa.Function]int{}
	first := map[*ssa.Function]ssa.CallInstruction{}
	level := []*ssa.Function{root}
	in := map[*ssa.Function]bool{root: true}
	r.order = []*ssa.Function{root}
	for d := 0; d < regionDepth && len(level) > 0; d++ {
		var next []*ssa.Function
		cand := map[*ssa.Function]bool{}
		for _, f := range level {
			for _, ci := range callsIn(f) {
				if _, isGo := ci.(*ssa.Go); isGo {
					continue
				}
				if _, isDefer := ci.(*ssa.Defer); isDefer {
					continue
				}
				cal := regionCallee(ci)
				if cal == nil {
					cal = r.paramCallee(ci)
				}
				if cal == nil || in[cal] || !isRepoFunc(cal) {
					continue
				}
				count[cal]++
				if first[cal] == nil {
					first[cal] = ci
				}
				cand[cal] = true
			}
		}
		for cal := range cand {
			if count[cal] == 1 {
				in[cal] = true
				r.site[cal] = first[cal]
				next = append(next, cal)
			}
		}
		sortFuncs(next)
		r.order = append(r.order, next...)
		level = next
	}
	// a callee that turned out to be called from several sites (found at a deeper level) is dropped
	for cal := range r.site {
		if count[cal] != 1 {
			delete(r.site, cal)
		}
	}
	var keep []*ssa.Function
	for _, f := range r.order {
		if f == root || r.site[f] != nil {
			keep = append(keep, f)
		}
	}
	r.order = keep
	return r
}

// paramCallee: a call of a function-typed parameter of an inlined helper invokes the function literal (or
// named function) handed in at the helper's only call site (callbacks: `store(ctx, blocks, func(pg) error {…})`).
func (r *Region) paramCallee(ci ssa.CallInstruction) *ssa.Function {
	if ci.Common().IsInvoke() {
		return nil
	}
	p, ok := ci.Common().Value.(*ssa.Parameter)
	if !ok {
		return nil
	}
	switch x := r.Resolve(p).(type) {
	case *ssa.MakeClosure:
		return x.Fn.(*ssa.Function)
	case *ssa.Function:
		if x.Blocks != nil {
			return x
		}
	}
	return nil
}

func isRepoFunc(f *ssa.Function) bool {
	p := f.Package()
	if p == nil && f.Parent() != nil {
		x := f
		for x.Parent() != nil {
			x = x.Parent()
		}
		p = x.Package()
	}
	if p == nil {
		if o := f.Origin(); o != nil {
			p = o.Package() // an instance of a generic function of the repo
		}
	}
	if p == nil {
		// a synthetic wrapper (promoted method, bound method): judged by the method it wraps
		if obj := f.Object(); obj != nil && obj.Pkg() != nil {
			path := obj.Pkg().Path()
			return len(path) >= len(modPath) && path[:len(modPath)] == modPath
		}
	}
	return p != nil && p.Pkg != nil && len(p.Pkg.Path()) >= len(modPath) && p.Pkg.Path()[:len(modPath)] == modPath
}

func sortFuncs(fs []*ssa.Function) {
	for i := 1; i < len(fs); i++ {
		for j := i; j > 0 && fnName(fs[j]) < fnName(fs[j-1]); j-- {
			fs[j], fs[j-1] = fs[j-1], fs[j]
		}
	}
}

// Funcs: root first, then the inlined helpers.
func (r *Region) Funcs() []*ssa.Function { return r.order }

func (r *Region) Has(f *ssa.Function) bool { return f == r.Root || r.site[f] != nil }

func (r *Region) AllInstrs(f func(ssa.Instruction)) {
	for _, fn := range r.order {
		allInstrs(fn, f)
	}
}

func (r *Region) Calls() []ssa.CallInstruction {
	var out []ssa.CallInstruction
	for _, fn := range r.order {
		out = append(out, callsIn(fn)...)
	}
	return out
}

// chain: the call sites leading from the root to the function holding `in`,
// outermost first, followed by `in` itself.
func (r *Region) chain(in ssa.Instruction) []ssa.Instruction {
	var rev []ssa.Instruction
	cur := in
	for {
		rev = append(rev, cur)
		f := cur.Parent()
		if f == r.Root {
			break
		}
		s := r.site[f]
		if s == nil {
			return nil
		}
		cur = s
	}
	for i, j := 0, len(rev)-1; i < j; i, j = i+1, j-1 {
		rev[i], rev[j] = rev[j], rev[i]
	}
	return rev
}

// Lift: the instruction of the root at which `in` executes.
func (r *Region) Lift(in ssa.Instruction) ssa.Instruction {
	c := r.chain(in)
	if c == nil {
		return nil
	}
	return c[0]
}

// passesBeforeReturn: every path from f's entry to a normal return executes `in`.
func passesBeforeReturn(in ssa.Instruction) bool {
	f := in.Parent()
	hit, _ := reach(entrySite(f), isReturn, newCuts().addInstr(in))
	return !hit
}

// Dominates: on every path (through the inlined program) that reaches b, a
// has been executed before.
func (r *Region) Dominates(a, b ssa.Instruction) bool {
	ca, cb := r.chain(a), r.chain(b)
	if ca == nil || cb == nil {
		return false
	}
	// common prefix of call sites
	i := 0
	for i < len(ca)-1 && i < len(cb)-1 && ca[i] == cb[i] {
		i++
	}
	// now ca[i] and cb[i] are in the same function
	x, y := ca[i], cb[i]
	if x == y {
		// one is (inside) the call the other one is: a inside call y==x means b IS the call or inside it
		if len(ca) > i+1 && len(cb) > i+1 {
			return false // cannot happen: prefix loop would have advanced
		}
		if len(ca) == i+1 {
			// a is the call instruction itself (or the same instruction): a call "dominates" its body
			return true
		}
		return false // a inside the call that b is: b (the call) starts before a
	}
	if !dominatesInstr(x, y) {
		return false
	}
	// a inside helper(s) below x: it must be unavoidable on the way out of each –
	// or avoidable only on paths that end in an error return, provided the
	// error is handed on by every caller in between and b is reached only
	// when the outermost call reported no error
	for k := i + 1; k < len(ca); k++ {
		if passesBeforeReturn(ca[k]) {
			continue
		}
		if !successPasses(ca[k]) {
			return false
		}
		call, isCall := ca[k-1].(*ssa.Call)
		if !isCall {
			return false
		}
		if k-1 == i {
			e, has := errResult(call)
			if !has || e == nil {
				return false
			}
			isNil, _ := nilTestEdges(e)
			if len(isNil) == 0 {
				return false
			}
			if hit, _ := reach(siteOf(call), isInstr(y), newCuts().addEdges(isNil)); hit {
				return false
			}
		} else if !callErrorArmReturns(call) {
			return false
		}
	}
	return true
}

// successPasses: every path from f's entry to a return that does not execute
// `in` ends in a return whose (last) error result is known to be non-nil.
func successPasses(in ssa.Instruction) bool {
	f := in.Parent()
	res := f.Signature.Results()
	if res.Len() == 0 || !isErrorType(res.At(res.Len()-1).Type()) {
		return false
	}
	var pf *pathFacts
	ok := true
	reach(entrySite(f), func(x ssa.Instruction) bool {
		ret, isRet := x.(*ssa.Return)
		if !isRet {
			return false
		}
		vals := returnValues(ret)
		last := vals[len(vals)-1]
		if definitelyNonNilError(last, nil) {
			return false
		}
		if pf == nil {
			pf = newPathFacts(f)
		}
		if st := pf.At(ret); st == nil || st.knownNonNil(last) {
			return false
		}
		ok = false
		return false
	}, newCuts().addInstr(in))
	return ok
}

// Guarded: every path to site crosses one of the edges.  Edges may belong to
// any function of the region: an edge in the function of the site (or of one
// of its lifted call sites) guards it directly.
func (r *Region) Guarded(site ssa.Instruction, edges []Edge) bool {
	for _, s := range r.chain(site) {
		f := s.Parent()
		var es []Edge
		for _, e := range edges {
			if e.From.Parent() == f {
				es = append(es, e)
			}
		}
		if len(es) > 0 && guardedByEdges(f, s, es) {
			return true
		}
	}
	return false
}

// Reach: can control flow from just after a to b without executing a cut
// instruction.  Only for a and b whose lifted positions differ or that are in
// the same function; cuts are honoured in the functions where they are.
func (r *Region) Reach(a, b ssa.Instruction, cuts *Cuts) bool {
	if a.Parent() == b.Parent() {
		hit, _ := reach(siteOf(a), isInstr(b), cuts)
		return hit
	}
	ca, cb := r.chain(a), r.chain(b)
	if ca == nil || cb == nil {
		return false
	}
	i := 0
	for i < len(ca)-1 && i < len(cb)-1 && ca[i] == cb[i] {
		i++
	}
	x, y := ca[i], cb[i]
	if x == y {
		return true
	}
	// leave the helpers below x (must be able to return without a cut)
	for k := len(ca) - 1; k > i; k-- {
		if hit, _ := reach(siteOf(ca[k]), isReturn, cuts); !hit {
			return false
		}
	}
	if hit, _ := reach(siteOf(x), isInstr(y), cuts); !hit {
		return false
	}
	// descend into the helpers below y
	for k := i + 1; k < len(cb); k++ {
		if hit, _ := reach(entrySite(cb[k].Parent()), isInstr(cb[k]), cuts); !hit {
			return false
		}
	}
	return true
}

// Resolve: look through the boundaries of inlined helpers.  A parameter of an
// inlined helper is the argument at its call site; a captured variable is the
// enclosing function's.  Returns v itself when nothing applies.
func (r *Region) Resolve(v ssa.Value) ssa.Value {
	for i := 0; i < 8; i++ {
		switch x := v.(type) {
		case *ssa.Parameter:
			f := x.Parent()
			s := r.site[f]
			if s == nil {
				return v
			}
			idx := paramIndex(x)
			args := s.Common().Args
			if s.Common().IsInvoke() {
				idx--
			}
			if idx < 0 || idx >= len(args) {
				return v
			}
			v = args[idx]
			continue
		case *ssa.ChangeType:
			v = x.X
			continue
		case *ssa.UnOp:
			if fv, ok := x.X.(*ssa.FreeVar); ok {
				if b := (&apWalker{}).freeVarBinding(fv); b != nil {
					if al, ok := b.(*ssa.Alloc); ok {
						if cv := cellValue(al); cv != nil {
							v = cv
							continue
						}
					}
				}
			}
			if al, ok := x.X.(*ssa.Alloc); ok {
				if cv := cellValue(al); cv != nil {
					v = cv
					continue
				}
			}
		}
		return v
	}
	return v
}

// Results: the values a call to an inlined helper can return for result idx
// (nil if the callee is not inlined).  Phi leaves are expanded.
func (r *Region) Results(v ssa.Value, idx int) []ssa.Value {
	call, ok := v.(*ssa.Call)
	if !ok {
		return nil
	}
	cal := regionCallee(call)
	if cal == nil || r.site[cal] != ssa.CallInstruction(call) {
		return nil
	}
	var out []ssa.Value
	for _, ret := range returnsOf(cal) {
		vals := returnValues(ret)
		if idx >= len(vals) {
			continue
		}
		for _, lf := range phiLeaves(vals[idx]) {
			out = append(out, lf.Val)
		}
	}
	return out
}

// Leaves: expand a value through phis, min/max-free, and results of inlined
// helpers into the set of expressions it can be.
func (r *Region) Leaves(v ssa.Value) []ssa.Value {
	var out []ssa.Value
	seen := map[ssa.Value]bool{}
	var walk func(v ssa.Value, d int)
	walk = func(v ssa.Value, d int) {
		v = r.Resolve(v)
		if seen[v] || d > 12 {
			return
		}
		seen[v] = true
		switch x := v.(type) {
		case *ssa.Phi:
			for _, e := range x.Edges {
				walk(e, d+1)
			}
			return
		case *ssa.Extract:
			if rs := r.Results(x.Tuple, x.Index); rs != nil {
				for _, e := range rs {
					walk(e, d+1)
				}
				return
			}
		case *ssa.Call:
			if sig, ok := x.Call.Value.Type().Underlying().(*types.Signature); ok && sig.Results().Len() == 1 {
				if rs := r.Results(x, 0); rs != nil {
					for _, e := range rs {
						walk(e, d+1)
					}
					return
				}
			}
		}
		out = append(out, v)
	}
	walk(v, 0)
	return out
}

// SuccessReturns: the returns of the root, or – where the root returns the
// results of an inlined helper unchanged (`return helper(…)`) – of that helper,
// on which the last (error) result is the nil constant; with their values.
type retVals struct {
	Ret  *ssa.Return
	Vals []ssa.Value
}

func (r *Region) SuccessReturns() []retVals {
	var out []retVals
	var visit func(fn *ssa.Function, d int)
	visit = func(fn *ssa.Function, d int) {
		for _, ret := range returnsOf(fn) {
			vals := returnValues(ret)
			if len(vals) == 0 {
				continue
			}
			last := vals[len(vals)-1]
			if isNilConst(last) {
				out = append(out, retVals{ret, vals})
				continue
			}
			// pass-through of an inlined helper's results
			var call *ssa.Call
			pass := d < 3
			for i, v := range vals {
				e, ok := v.(*ssa.Extract)
				if !ok || e.Index != i {
					pass = false
					break
				}
				c, ok := e.Tuple.(*ssa.Call)
				if !ok || (call != nil && c != call) {
					pass = false
					break
				}
				call = c
			}
			if !pass || call == nil {
				continue
			}
			if cal := regionCallee(call); cal != nil && r.site[cal] == ssa.CallInstruction(call) {
				visit(cal, d+1)
			}
		}
	}
	visit(r.Root, 0)
	return out
}

// OnlyThrough: every path (through the inlined program) from d to u crosses
// one of edges.  d and the edges may live in a helper: then the helper must not
// be able to return success after d without crossing them, every caller in
// between must only succeed when its callee did, and u must be reached only
// when the outermost call reported no error.
func (r *Region) OnlyThrough(d, u ssa.Instruction, edges []Edge) bool {
	cd := r.chain(d)
	lu := r.Lift(u)
	if cd == nil || lu == nil || len(edges) == 0 {
		return false
	}
	if len(cd) == 1 {
		hit, _ := reach(siteOf(d), isInstr(lu), newCuts().addEdges(edges))
		return !hit
	}
	cur := edges
	for k := len(cd) - 1; k >= 1; k-- {
		h := cd[k].Parent()
		var pf *pathFacts
		bad := false
		reach(siteOf(cd[k]), func(x ssa.Instruction) bool {
			ret, isRet := x.(*ssa.Return)
			if !isRet {
				return false
			}
			vals := returnValues(ret)
			if len(vals) == 0 {
				bad = true
				return false
			}
			last := vals[len(vals)-1]
			if !isErrorType(last.Type()) {
				bad = true
				return false
			}
			if definitelyNonNilError(last, nil) {
				return false
			}
			if pf == nil {
				pf = newPathFacts(h)
			}
			if st := pf.At(ret); st == nil || st.knownNonNil(last) {
				return false
			}
			bad = true
			return false
		}, newCuts().addEdges(cur))
		if bad {
			return false
		}
		call, isCall := cd[k-1].(*ssa.Call)
		if !isCall {
			return false
		}
		e, has := errResult(call)
		if !has || e == nil {
			return false
		}
		isNil, _ := nilTestEdges(e)
		if len(isNil) == 0 {
			return false
		}
		cur = isNil
	}
	hit, _ := reach(siteOf(cd[0]), isInstr(lu), newCuts().addEdges(cur))
	return !hit
}

// ReachFromEntry: can b be executed, starting at the root's entry, without crossing a cut.
func (r *Region) ReachFromEntry(b ssa.Instruction, cuts *Cuts) bool {
	cb := r.chain(b)
	if cb == nil {
		return false
	}
	for _, in := range cb {
		if hit, _ := reach(entrySite(in.Parent()), isInstr(in), cuts); !hit {
			return false
		}
	}
	return true
}

// ConstCuts: the branches inside inlined helpers that are decided by a constant argument at the
// helper's (single) call site – `tm.stopChan(true)` with `if renew { … }` inside: the edges that
// contradict the constant.
func (r *Region) ConstCuts() *Cuts {
	cuts := newCuts()
	for _, f := range r.order {
		site := r.site[f]
		if site == nil {
			continue
		}
		args := site.Common().Args
		for i, p := range f.Params {
			if i >= len(args) || !isBoolType(p.Type()) {
				continue
			}
			k, ok := args[i].(*ssa.Const)
			if !ok || k.Value == nil {
				continue
			}
			t, fl := boolEdges(p)
			if k.Value.String() == "true" {
				cuts.addEdges(fl)
			} else {
				cuts.addEdges(t)
			}
		}
	}
	return cuts
}

// DominatesUnder: every path of the inlined view from the root's entry to b that avoids the cut
// edges passes a.
func (r *Region) DominatesUnder(a, b ssa.Instruction, cuts *Cuts) bool {
	if a == nil || b == nil {
		return false
	}
	if r.Dominates(a, b) {
		return true
	}
	c2 := newCuts()
	for e := range cuts.Edges {
		c2.Edges[e] = true
	}
	for in := range cuts.Instrs {
		c2.Instrs[in] = true
	}
	// a inside a helper: cutting a itself and the helper's call on paths that skip it is expressed by
	// cutting a and asking whether b is still reachable from the entry
	c2.addInstr(a)
	// a call of an inlined helper is passed only when the helper can return: helpers that cannot (every
	// path to a return crosses a cut – for instance `a` itself) block their call site, innermost first
	for changed := true; changed; {
		changed = false
		for _, f := range r.order {
			site := r.site[f]
			if site == nil || c2.Instrs[site] {
				continue
			}
			if hit, _ := reach(entrySite(f), isReturn, c2); !hit {
				c2.addInstr(site)
				changed = true
			}
		}
	}
	return !r.ReachFromEntry(b, c2)
}
