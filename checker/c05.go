package main

import (
	"fmt"
	"go/token"
	"go/types"
	"strings"

	"golang.org/x/tools/go/ssa"
)

func init() { register("C05", propC05) }

func propC05(c *Ctx) {
	c.Explanation = "Structural necessary conditions of 'a dependent never runs ahead': (R5.1) whenever the integration has dependencies, every definition of the step target that reaches load is the dependencies' recorded position, or the head only on the edge where the dependency position is not below it, with `position == 0 → nothing new` and the read's error tested first; the only later redefinition is the stop clip; (R5.2) the dependency read is keyed by this task's source and its registered dependency list; (R5.3) every configuration path on which a filter reference is consumed by the row builder is visited by ValidateFilterRefs, the only place dependencies are registered; (R5.4) the reference look-up executes on the inserting transaction. Relative task speeds and the SQL semantics of the dependency query are run-time."
	m := newConvergeModel(c)
	w := c.W
	conv := m.conv
	fDeps := w.Field("shovel/config", "Integration", "Dependencies")
	_ = w.Field("shovel", "Task", "stop")
	loads := m.calls(m.load)
	deps := m.calls(m.latestDep)
	lats := m.calls(m.latest)

	c.Rule("R5.1", "with dependencies, the target reaching load is bounded by the dependency position", 4)
	if len(loads) != 1 || len(lats) != 1 {
		c.Violation("R5.1", "Converge/calls", conv.Pos(), "expected one load/latest call")
		return
	}
	if len(deps) != 1 {
		c.Violation("R5.1", "Converge/latestDependency", conv.Pos(), fmt.Sprintf("expected one latestDependency call, found %d: the target is not limited by referenced integrations", len(deps)))
		return
	}
	ld, dep, lat := loads[0], deps[0], lats[0]
	_ = lat
	depNum := extractOf(dep, 0)
	depErr, _ := errResult(dep)
	// target = X in the step size, which is bounded by X - localNum
	var target ssa.Value
	{
		seen := map[ssa.Value]bool{}
		var walk func(v ssa.Value, d int)
		walk = func(v ssa.Value, d int) {
			v = stripNum(v)
			if seen[v] || d > 6 {
				return
			}
			seen[v] = true
			switch x := v.(type) {
			case *ssa.BinOp:
				if x.Op == token.SUB && m.isLatNum(x.Y) {
					target = x.X
				}
			case *ssa.Phi:
				for _, e := range x.Edges {
					walk(e, d+1)
				}
			case *ssa.Call:
				if calleeName(x) == "builtin min" {
					for _, a := range x.Call.Args {
						walk(a, d+1)
					}
				}
			}
		}
		if _, lim := loadRangeArgs(ld); lim != nil {
			walk(lim, 0)
		}
	}
	if target == nil {
		c.Violation("R5.1", "Converge/target", ld.Pos(), "cannot identify the step target (limit is not min(target - position, batch))")
		return
	}
	// edges on which len(Dependencies) > 0 / == 0 is known, whatever the comparison is written as
	var hasDeps, noDeps []Edge
	for _, spec := range []struct {
		op      token.Token
		k       int64
		posTrue bool // the true edge means "has dependencies"
	}{{token.GTR, 0, true}, {token.GEQ, 1, true}, {token.NEQ, 0, true}, {token.EQL, 0, false}, {token.LSS, 1, false}, {token.LEQ, 0, false}} {
		spec := spec
		t, f := m.cmpEdges(func(b *ssa.BinOp) bool {
			arg, ok := lenArg(b.X)
			if !ok {
				return false
			}
			_, chain := fieldChain(arg)
			n, okc := constInt(b.Y)
			return b.Op == spec.op && okc && n == spec.k && len(chain) > 0 && chain[len(chain)-1] == fDeps
		})
		if spec.posTrue {
			hasDeps, noDeps = append(hasDeps, t...), append(noDeps, f...)
		} else {
			hasDeps, noDeps = append(hasDeps, f...), append(noDeps, t...)
		}
	}
	c.Check("R5.1", "Converge/dependency-switch", conv.Pos(), len(hasDeps) > 0 && m.guarded(dep, hasDeps), "latestDependency is consulted exactly when len(Dependencies) > 0")
	// what Converge does when latestDependency leaves through a given return statement (scenario.go):
	// the representation of "no position yet" – 0, a zero struct with a method, a sentinel error – does not matter
	ldf := m.latestDep
	loadReachableAfter := func(ret *ssa.Return, errNonNil bool) bool {
		vals := append([]ssa.Value{}, returnValues(ret)...)
		if errNonNil && len(vals) > 0 {
			if _, g := (&retScenario{reg: m.reg, call: dep, vals: vals}).errFact(extractOf(dep, len(vals)-1)); g == nil {
				// an error that is not a sentinel: stands for any non-nil error
				vals[len(vals)-1] = nonNilErrorMarker(ldf)
			}
		}
		sc := &retScenario{reg: m.reg, call: dep, vals: vals}
		hit, _ := reach(siteOf(dep), isInstr(ld), sc.cuts())
		return hit
	}
	var depScanErr *ssa.Call
	for _, ci := range callsIn(ldf) {
		if call, ok := ci.(*ssa.Call); ok && call.Call.IsInvoke() && call.Call.Method.Name() == "Scan" {
			depScanErr = call
		}
	}
	returnsFrom := func(edges []Edge) []*ssa.Return {
		var out []*ssa.Return
		seen := map[*ssa.Return]bool{}
		for _, e := range edges {
			e = threadEdge(e)
			reach(Site{e.To, -1}, func(in ssa.Instruction) bool {
				if r, ok := in.(*ssa.Return); ok && !seen[r] {
					seen[r] = true
					out = append(out, r)
				}
				return false
			}, nil)
		}
		return out
	}
	zeroRet := false
	if depScanErr != nil {
		var noRows []Edge
		for _, ref := range *depScanErr.Referrers() {
			if call, ok := ref.(*ssa.Call); ok && calleeName(call) == "errors.Is" {
				if u, ok := call.Call.Args[1].(*ssa.UnOp); ok {
					if g, ok := u.X.(*ssa.Global); ok && g.Name() == "ErrNoRows" {
						t, _ := boolEdges(call)
						noRows = append(noRows, t...)
					}
				}
			}
		}
		rets := returnsFrom(noRows)
		zeroRet = len(rets) > 0
		for _, r := range rets {
			if loadReachableAfter(r, false) {
				zeroRet = false
			}
		}
	}
	c.Check("R5.1", "Converge/no-dependency-progress→nothing-new", dep.Pos(), zeroRet, "when no referenced integration has a position the step returns without loading")
	gethNum := m.headNum()
	depBelow, depNotBelow := m.cmpEdges(func(b *ssa.BinOp) bool {
		return (b.Op == token.LSS && b.X == depNum && b.Y == gethNum)
	})
	_ = depBelow
	// with dependencies the target is bounded by the dependency position
	// (vacuous on the paths without dependencies) – as an upper-bound dataflow,
	// so that the switch form, `t := head; if dep < head { t = dep }` and
	// min(head, dep) are the same thing
	_ = depBelow
	_ = depNotBelow
	sc0 := &retScenario{reg: m.reg, call: dep}
	isDepNum := func(v ssa.Value) bool {
		if v == depNum {
			return true // the number itself, or the struct result standing for its number field (opaque below)
		}
		idx, path, ok := sc0.origin(v)
		if !ok || idx != 0 || !isIntType(v.Type()) {
			return false
		}
		return len(path) <= 1
	}
	ub := &ubound{fn: conv, vac: noDeps, reg: m.reg}
	// the position handed back as a small struct: its fields are not looked for inside latestDependency
	ub.opaque = func(sv ssa.Value, fld int) ssa.Value {
		if sv == depNum {
			return sv
		}
		return nil
	}
	bounded := ub.Bounded(target, isDepNum)
	c.Check("R5.1", "Converge/target-bounded-by-dependency-position", ld.Pos(), bounded,
		"whenever the integration has dependencies, the step target is at most the position read from them")
	// a failed read never reaches load
	okUse := depErr != nil
	if depErr != nil {
		pf := newPathFacts(ldf)
		n := 0
		for _, r := range returnsOf(ldf) {
			vals := returnValues(r)
			last := vals[len(vals)-1]
			st := pf.At(r)
			if !(definitelyNonNilError(last, nil) || (st != nil && st.knownNonNil(last))) {
				continue
			}
			n++
			if loadReachableAfter(r, true) {
				okUse = false
			}
		}
		if n == 0 {
			okUse = false
		}
	}
	c.Check("R5.1", "Converge/dependency-position-used-after-error-and-zero-tests", dep.Pos(), okUse,
		"a failed read of the dependency position never reaches load")

	// ---- R5.2 ---------------------------------------------------------
	c.Rule("R5.2", "the dependency read is keyed: src_name = $i ← Task.srcName, ig_name = ANY($j) ← destConfig.Dependencies", 2)
	sites := sqlSites(w)
	fSrc := w.Field("shovel", "Task", "srcName")
	found := false
	for i := range sites {
		s := &sites[i]
		if s.Fn != m.latestDep || s.Stmt == nil {
			continue
		}
		for bi := range s.Stmt.Blocks {
			b := &s.Stmt.Blocks[bi]
			if b.Rel != "shovel.task_updates" {
				continue
			}
			found = true
			cs, ci := s.Stmt.conj(b, "src_name"), s.Stmt.conj(b, "ig_name")
			ok1 := cs != nil && cs.Op == "=" && cs.Param > 0 && cs.Param <= len(s.Args) && isLoadOfField(s.Args[cs.Param-1], fSrc)
			c.Check("R5.2", s.key()+"/src_name", instrPos(s.Call), ok1, "src_name bound to Task.srcName")
			ok2 := false
			if ci != nil && ci.Op == "= any" && ci.Param > 0 && ci.Param <= len(s.Args) {
				_, chain := fieldChain(s.Args[ci.Param-1])
				ok2 = len(chain) > 0 && chain[len(chain)-1] == fDeps
			}
			c.Check("R5.2", s.key()+"/ig_name", instrPos(s.Call), ok2, "ig_name = ANY(destConfig.Dependencies)")
		}
	}
	if !found {
		c.Violation("R5.2", "latestDependency/statement", m.latestDep.Pos(), "no readable statement on shovel.task_updates")
	}

	c.Rule("R5.5", "every registered dependency must have a position: the dependency read counts the referenced integrations it found and reports no progress when one is missing", 2)
	{
		ld := m.latestDep
		hasCount := false
		var scanCells []ssa.Value
		for i := range sites {
			s := &sites[i]
			if s.Fn == ld && s.Stmt != nil && strings.Contains(strings.ToLower(s.Text), "count(") {
				hasCount = true
			}
		}
		for _, ci := range callsIn(ld) {
			if ci.Common().IsInvoke() && ci.Common().Method.Name() == "Scan" {
				if vs, ok := varargValues(ci.Common().Args[0]); ok {
					scanCells = append(scanCells, vs...)
				}
			}
		}
		c.Check("R5.5", "latestDependency/counts-found-dependencies", ld.Pos(), hasCount && len(scanCells) >= 3, "the query also returns how many referenced integrations have a position")
		// found < number of registered dependencies → return position 0
		okCmp := false
		var missingEdges, completeEdges []Edge
		assumeMissing := map[ssa.Value]bool{}
		var cmpRHS []ssa.Value
		allInstrs(ld, func(in ssa.Instruction) {
			b, ok := in.(*ssa.BinOp)
			if !ok {
				return
			}
			isCellLoad := func(v ssa.Value) bool {
				u, ok := v.(*ssa.UnOp)
				if !ok {
					return false
				}
				for _, cell := range scanCells {
					if stripConv(cell) == u.X {
						return true
					}
				}
				return false
			}
			// found < expected, in any spelling: which outcome of the comparison means "a position is missing"
			other := b.Y
			missingWhen := true
			switch {
			case isCellLoad(b.X) && (b.Op == token.LSS || b.Op == token.NEQ):
			case isCellLoad(b.X) && (b.Op == token.GEQ || b.Op == token.EQL):
				missingWhen = false
			case isCellLoad(b.Y) && (b.Op == token.GTR || b.Op == token.NEQ):
				other = b.X
			case isCellLoad(b.Y) && (b.Op == token.LEQ || b.Op == token.EQL):
				other, missingWhen = b.X, false
			default:
				return
			}
			// right-hand side derives from destConfig.Dependencies (len or a counting helper)
			fromDeps := false
			var walk func(v ssa.Value, d int)
			walk = func(v ssa.Value, d int) {
				if v == nil || d > 5 {
					return
				}
				if _, ch := fieldChain(v); len(ch) > 0 && ch[len(ch)-1] == fDeps {
					fromDeps = true
				}
				if call, ok := v.(*ssa.Call); ok {
					for _, a := range call.Call.Args {
						walk(a, d+1)
					}
				}
			}
			walk(other, 0)
			if !fromDeps {
				return
			}
			cmpRHS = append(cmpRHS, other)
			t, f := boolEdges(b)
			if !missingWhen {
				t, f = f, t
			}
			missingEdges = append(missingEdges, t...)
			completeEdges = append(completeEdges, f...)
			assumeMissing[b] = missingWhen
		})
		rets := returnsFrom(missingEdges)
		okCmp = len(rets) > 0
		for _, r := range rets {
			if loadReachableAfter(r, false) {
				okCmp = false
			}
		}
		// what the count is compared with: the number of (distinct) registered dependencies, not that number
		// shifted by a constant (found by a seeded change whose counting helper returned one less)
		if len(cmpRHS) > 0 {
			lreg := NewRegion(ld)
			var expand func(v ssa.Value, d int) []ssa.Value
			expand = func(v ssa.Value, d int) []ssa.Value {
				v = stripConv(lreg.Resolve(stripConv(v)))
				if call, ok := v.(*ssa.Call); ok && d < 4 {
					if cal := regionCallee(call); cal != nil && lreg.site[cal] == ssa.CallInstruction(call) {
						var out []ssa.Value
						for _, r := range returnsOf(cal) {
							out = append(out, expand(returnValues(r)[0], d+1)...)
						}
						return out
					}
				}
				return []ssa.Value{v}
			}
			fromDepsVal := func(v ssa.Value) bool {
				ok := false
				var walk func(v ssa.Value, d int)
				walk = func(v ssa.Value, d int) {
					if v == nil || d > 6 || ok {
						return
					}
					v = stripConv(lreg.Resolve(stripConv(v)))
					if _, ch := fieldChain(v); len(ch) > 0 && ch[len(ch)-1] == fDeps {
						ok = true
						return
					}
					switch x := v.(type) {
					case *ssa.Call:
						for _, a := range x.Call.Args {
							walk(a, d+1)
						}
					case *ssa.Phi:
						for _, e := range x.Edges {
							walk(e, d+1)
						}
					}
				}
				walk(v, 0)
				return ok
			}
			verdict, detail := true, "the expected count is the number of registered dependencies"
			for _, rhs := range cmpRHS {
				for _, lv := range expand(rhs, 0) {
					aff := &affEnv{reg: lreg}
					l := aff.Of(lv)
					nLen := 0
					var of ssa.Value
					other := false
					for a, k := range l.t {
						if k == 0 {
							continue
						}
						if x, isLen := aff.lens[a]; isLen && k == 1 {
							nLen++
							of = x
						} else {
							other = true
						}
					}
					if nLen != 1 || other {
						// a second spelling the rule reads: a counter that steps once per place where two
						// neighbours of the SORTED dependency names differ. It counts at most (different names - 1),
						// so its start plus whatever is added afterwards must reach 1 (seed C05-D started at 0)
						if init, sl, isRun := runBoundaryCounter(aff, l); isRun && fromDepsVal(sl) {
							if init < 1 {
								verdict, detail = false, fmt.Sprintf("the expected count steps once per change of name in the sorted dependency list and starts at %d: it is at most the number of different names %+d, so with %d missing position(s) the step is not held back", init, init-1, 1-init)
							} else {
								detail = "the expected count is a run counter over the sorted dependency names (start >= 1): exactness not decided"
							}
							continue
						}
						detail = "the expected count is not written as the size of a collection: not decided"
						continue
					}
					// the collection: the dependency list itself, a set keyed by its elements, or its compacted copy
					known := fromDepsVal(of)
					if mk, isMap := stripConv(lreg.Resolve(stripConv(of))).(*ssa.MakeMap); isMap {
						known = false
						for _, f := range lreg.Funcs() {
							allInstrs(f, func(in ssa.Instruction) {
								if mu, ok := in.(*ssa.MapUpdate); ok && stripConv(mu.Map) == ssa.Value(mk) {
									if sl, _, isE := elemOf(mu.Key); isE && fromDepsVal(sl) {
										known = true
									}
								}
							})
						}
					}
					if !known {
						detail = "the collection whose size is the expected count is not recognised: not decided"
						continue
					}
					if l.c != 0 {
						verdict, detail = false, fmt.Sprintf("the expected count is the number of registered dependencies %+d: with %d missing position(s) the step is not held back", l.c, -l.c)
					}
				}
			}
			c.Check("R5.5", "latestDependency/expected-count-is-number-of-dependencies", ld.Pos(), verdict, detail)
		}
		c.Check("R5.5", "latestDependency/missing-dependency→no-progress", ld.Pos(), okCmp, "fewer positions than registered dependencies: the step returns without loading")
		// a position is handed back only when the count says all are there: every path to a return of a
		// non-constant position takes the "complete" outcome of the comparison (a conjunct in front of the
		// comparison – "already seen them all once" – lets the step through while a position is missing)
		if len(assumeMissing) > 0 {
			// suppose the comparison says "missing" wherever it is evaluated: no position may then come back
			cuts := newCuts().addEdges(completeEdges).closeBoolPhisWith(ld, assumeMissing)
			nr := 0
			for _, r := range returnsOf(ld) {
				vals := returnValues(r)
				if len(vals) == 0 {
					continue
				}
				if _, isConst := stripConv(vals[0]).(*ssa.Const); isConst {
					continue
				}
				nr++
				leak, path := reach(entrySite(ld), isInstr(r), cuts)
				c.Check("R5.5", fmt.Sprintf("latestDependency/position-return#%d-only-when-all-found", nr), r.Pos(), !leak,
					"a dependency position is returned only on the outcome found >= expected of the count comparison"+suffix(pathIf(leak, path)))
			}
		}
	}

	// ---- R5.3 ---------------------------------------------------------
	propC05Refs(c)

	// ---- R5.4 ---------------------------------------------------------
	c.Rule("R5.4", "the reference look-up runs on the inserting transaction", 1)
	accept := w.Fn("dig", "Filter.Accept")
	inss := m.calls(m.insert)
	n := 0
	areg := NewRegion(accept) // the look-up may live in a helper only Accept calls (refContains)
	for i := range sites {
		s := &sites[i]
		if !areg.Has(s.Fn) {
			continue
		}
		n++
		idx, why := m.beginIndex(s.Recv)
		ii := -1
		if len(inss) == 1 {
			ii, _ = m.beginIndex(inss[0].Call.Args[2])
		}
		c.Check("R5.4", s.key(), instrPos(s.Call), idx >= 0 && idx == ii, fmt.Sprintf("look-up on transaction #%d, insert on #%d %s", idx+1, ii+1, why))
	}
	if n == 0 {
		c.Violation("R5.4", "Filter.Accept/lookup", accept.Pos(), "no reference look-up site found")
	}
}

// foldRepeats collapses immediately repeated ".X[*]" segments:
// ".Inputs[*].Components[*].Components[*].Filter" → ".Inputs[*](.Components[*])+.Filter"
func foldRepeats(p string) string {
	segs := splitSegs(p)
	var out []string
	for i := 0; i < len(segs); i++ {
		s := segs[i]
		j := i
		for j+1 < len(segs) && segs[j+1] == s {
			j++
		}
		// a segment that can repeat (recursive type) is always shown as (+) once it is the recursive one
		if j > i || (strings.HasSuffix(s, "[*]") && isRecursiveSeg(s)) {
			out = append(out, "("+s+")+")
		} else {
			out = append(out, s)
		}
		i = j
	}
	return strings.Join(out, "")
}

var recursiveSegs = map[string]bool{}

func isRecursiveSeg(s string) bool { return recursiveSegs[s] }

func splitSegs(p string) []string {
	var segs []string
	cur := ""
	for i := 0; i < len(p); i++ {
		if p[i] == '.' && cur != "" {
			segs = append(segs, cur)
			cur = ""
		}
		cur += string(p[i])
	}
	if cur != "" {
		segs = append(segs, cur)
	}
	return segs
}

func propC05Refs(c *Ctx) {
	w := c.W
	c.Rule("R5.3", "every configuration path on which a filter reference is consumed by the row builder is visited by ValidateFilterRefs (the only place dependencies are registered)", 3)
	recursiveSegs[".Components[*]"] = true
	res := NewResolver(w)
	root := w.Named("shovel/config", "Root")
	required := typePaths(root, func(f *types.Var, owner *types.Named) bool { return repoNamedIs(f.Type(), "dig", "Ref") })
	// nested components are consumers only if Selected() recurses into Components
	sel := w.Fn("dig", "Input.Selected")
	recursive := false
	for _, ci := range callsIn(sel) {
		if staticCallee(ci) == sel {
			recursive = true
		}
	}
	vf := w.Fn("shovel/config", "ValidateFilterRefs")
	wk := newAPWalker(res)
	env := apEnv{}
	for _, p := range vf.Params {
		env[p] = ""
	}
	wk.walk(vf, env)
	visited := map[string]bool{}
	for _, e := range wk.events {
		for i, p := range e.Paths {
			if p == "" {
				continue
			}
			a := e.Call.Common().Args[i]
			if pt, ok := a.Type().Underlying().(*types.Pointer); ok && repoNamedIs(pt.Elem(), "dig", "Ref") {
				visited[p] = true
			}
		}
	}
	groups := map[string][]string{}
	for _, r := range required {
		if !recursive && strings.Contains(r.Path, ".Components[*]") {
			continue
		}
		g := foldRepeats(r.Path)
		groups[g] = append(groups[g], r.Path)
	}
	for _, g := range sortedKeys(groups) {
		var missing []string
		for _, p := range groups[g] {
			if !visited[p] {
				missing = append(missing, p)
			}
		}
		c.Check("R5.3", "ValidateFilterRefs/"+g, vf.Pos(), len(missing) == 0,
			fmt.Sprintf("a dig.Ref at %s is consumed by Filter.Accept (through Selected()/Block) but ValidateFilterRefs never visits %v: no dependency is registered, the dependent can run ahead", g, missing))
	}
	c.Stats["ref_paths_required"] = len(required)
	c.Stats["ref_paths_visited"] = len(visited)
	// each visit registers the dependency on its ok path
	fDeps := w.Field("shovel/config", "Integration", "Dependencies")
	n := 0
	seenCall := map[ssa.CallInstruction]bool{}
	checkedFns := map[*ssa.Function]bool{}
	for _, e := range wk.events {
		if seenCall[e.Call] {
			continue
		}
		seenCall[e.Call] = true
		in := e.In
		for in.Parent() != nil {
			in = in.Parent()
		}
		if in != vf {
			continue
		}
		isRefVisit := false
		for i, p := range e.Paths {
			if p != "" {
				if pt, ok := e.Call.Common().Args[i].Type().Underlying().(*types.Pointer); ok && repoNamedIs(pt.Elem(), "dig", "Ref") {
					isRefVisit = true
				}
			}
		}
		call, ok := e.Call.(*ssa.Call)
		if !isRefVisit || !ok {
			continue
		}
		// a helper that hands the reference on to the check (resolve(ig, ref) → check(ref)):
		// the inner visit is the one that is judged
		if h := regionCallee(call); h != nil && isRepoFunc(h) {
			inner := false
			for _, e2 := range wk.events {
				if e2.In != h || e2.Call == e.Call {
					continue
				}
				for i, p := range e2.Paths {
					if p == "" {
						continue
					}
					if pt, ok := e2.Call.Common().Args[i].Type().Underlying().(*types.Pointer); ok && repoNamedIs(pt.Elem(), "dig", "Ref") {
						inner = true
					}
				}
			}
			if inner {
				continue
			}
		}
		n++
		okv, errv := extractOf(call, 0), extractOf(call, 1)
		good := false
		detail := "a successful reference check is followed by an append to Integration.Dependencies"
		if okv != nil && errv != nil {
			okT, _ := boolEdges(okv)
			isNil, _ := nilTestEdges(errv)
			// stores to Dependencies: in the visiting function itself, or in a
			// helper it calls (the store is then "at" the call of the helper)
			type cand struct {
				st *ssa.Store
				at ssa.Instruction
			}
			var cands []cand
			storesIn := func(f *ssa.Function) []*ssa.Store {
				var out []*ssa.Store
				allInstrs(f, func(in ssa.Instruction) {
					if st, isSt := in.(*ssa.Store); isSt {
						if fd, _ := fieldOf(st.Addr); fd == fDeps {
							out = append(out, st)
						}
					}
				})
				return out
			}
			for _, st := range storesIn(e.In) {
				cands = append(cands, cand{st, st})
			}
			for _, ci := range callsIn(e.In) {
				if h := regionCallee(ci); h != nil && h != e.In && isRepoFunc(h) {
					for _, st := range storesIn(h) {
						if passesBeforeReturn(st) {
							cands = append(cands, cand{st, ci})
						}
					}
				}
			}
			for _, cd := range cands {
				r1, _ := reach(siteOf(call), isInstr(cd.at), newCuts().addEdges(okT))
				r2, _ := reach(siteOf(call), isInstr(cd.at), newCuts().addEdges(isNil))
				r3, _ := reach(siteOf(call), isInstr(cd.at), nil)
				if !(r3 && !r1 && !r2) {
					continue
				}
				// the stored list extends the list it replaces (same object's field)
				ext := false
				if ap, isCall := stripConv(cd.st.Val).(*ssa.Call); isCall && calleeName(ap) == "builtin append" {
					if u, isU := stripConv(ap.Call.Args[0]).(*ssa.UnOp); isU && u.Op == token.MUL {
						if fa, isFA := u.X.(*ssa.FieldAddr); isFA {
							if fd, base := fieldOf(fa); fd == fDeps {
								_, stBase := fieldOf(cd.st.Addr)
								ext = sameAddr(base, stBase)
							}
						}
					}
				}
				if !ext {
					detail = "the list stored into Integration.Dependencies is not the integration's current list extended by the new reference (a stale copy drops the dependencies registered before)"
					continue
				}
				// … and it is stored into the configuration, not into a local copy of the integration
				if _, stBase := fieldOf(cd.st.Addr); stBase != nil && isLocalAlloc(accessPath(stBase).Root) {
					detail = "the dependency is appended to a local copy of the integration (a range-by-value loop variable): the configuration never sees it"
					continue
				}
				// … on EVERY path on which the check succeeded: with the failing outcomes excluded, the visit is
				// not left (towards the next visit or a return) without passing the append (a further condition –
				// "the referenced column is indexed already" – would skip the registration of a second reference)
				{
					okT2, okF2 := boolEdges(okv)
					_ = okT2
					_, nonNil2 := nilTestEdges(errv)
					cuts := newCuts().addEdges(okF2).addEdges(nonNil2).addInstr(cd.at)
					cuts.closeBoolPhis(call.Parent()) // `err != nil && …` evaluated as a value is false as well
					skipped, _ := reach(siteOf(call), func(in ssa.Instruction) bool {
						if _, isRet := in.(*ssa.Return); isRet {
							return true
						}
						return in == ssa.Instruction(call)
					}, cuts)
					if skipped {
						detail = "after a successful reference check the append to Integration.Dependencies can be skipped (it stands under a further condition)"
						continue
					}
				}
				good = true
			}
		}
		if okv == nil || errv == nil {
			// the check and the registration in one function (resolve(ig, ref) error): once the reference is
			// seen to name an integration, a nil return is reached only past an append to the Dependencies
			// of the integration handed in – which is the configuration's, not a copy
			if chk := regionCallee(call); chk != nil && isRepoFunc(chk) && chk.Signature.Results().Len() == 1 && isErrorType(chk.Signature.Results().At(0).Type()) {
				fRefIg := w.Field("dig", "Ref", "Integration")
				named, _ := cmpEdges(chk, func(b *ssa.BinOp) bool {
					arg, ok := lenArg(b.X)
					k, okc := constInt(b.Y)
					if !ok || !okc || k != 0 || (b.Op != token.GTR && b.Op != token.NEQ) {
						return false
					}
					_, ch := fieldChain(arg)
					return len(ch) > 0 && ch[len(ch)-1] == fRefIg
				})
				var regs []*ssa.Store
				igParam := -1
				allInstrs(chk, func(in ssa.Instruction) {
					st, isSt := in.(*ssa.Store)
					if !isSt {
						return
					}
					fd, stBase := fieldOf(st.Addr)
					if fd != fDeps {
						return
					}
					ap, isCall := stripConv(st.Val).(*ssa.Call)
					if !isCall || calleeName(ap) != "builtin append" {
						return
					}
					u, isU := stripConv(ap.Call.Args[0]).(*ssa.UnOp)
					if !isU || u.Op != token.MUL {
						return
					}
					fa, isFA := u.X.(*ssa.FieldAddr)
					if !isFA {
						return
					}
					if fd2, base := fieldOf(fa); fd2 != fDeps || !sameAddr(base, stBase) {
						return
					}
					if p, isP := stripConv(stBase).(*ssa.Parameter); isP && p.Parent() == chk {
						igParam = paramIndexOf(p)
						regs = append(regs, st)
					}
				})
				switch {
				case len(named) == 0:
					detail = "the function that receives the reference never tests whether it names an integration"
				case len(regs) == 0:
					detail = "no append to the Dependencies of the integration handed in"
				default:
					cuts := newCuts()
					for _, st := range regs {
						cuts.addInstr(st)
					}
					escape := false
					for _, e := range named {
						if hit, _ := reach(Site{e.To, -1}, func(in ssa.Instruction) bool {
							r, isR := in.(*ssa.Return)
							return isR && isNilConst(returnValues(r)[0])
						}, cuts); hit {
							escape = true
						}
					}
					argOK := igParam >= 0 && igParam < len(call.Call.Args)
					if argOK {
						if root := accessPath(call.Call.Args[igParam]).Root; isLocalAlloc(root) {
							if _, isStruct := root.Type().Underlying().(*types.Pointer).Elem().Underlying().(*types.Struct); isStruct {
								argOK = false
								detail = "the dependency is appended to a local copy of the integration: the configuration never sees it"
							}
						}
					}
					if escape {
						detail = "a reference that names an integration can be passed (nil error) without the dependency being appended"
					}
					good = !escape && argOK
				}
			}
		}
		c.Check("R5.3", fmt.Sprintf("ValidateFilterRefs/visit#%d-registers-dependency", n), instrPos(call), good, detail)
		// the check itself: a reference that names an integration is either rejected with an error or
		// reported as resolved – never passed over silently (found by a seeded change that reported
		// "nothing to register" for a column it had seen before: later integrations lost their dependency)
		if chk := regionCallee(call); chk != nil && isRepoFunc(chk) && !checkedFns[chk] {
			checkedFns[chk] = true
			fRefIg := w.Field("dig", "Ref", "Integration")
			named, _ := cmpEdges(chk, func(b *ssa.BinOp) bool {
				arg, ok := lenArg(b.X)
				k, okc := constInt(b.Y)
				if !ok || !okc || k != 0 || b.Op != token.GTR {
					return false
				}
				_, ch := fieldChain(arg)
				return len(ch) > 0 && ch[len(ch)-1] == fRefIg
			})
			n2, _ := cmpEdges(chk, func(b *ssa.BinOp) bool {
				arg, ok := lenArg(b.X)
				k, okc := constInt(b.Y)
				if !ok || !okc || k != 0 || b.Op != token.NEQ {
					return false
				}
				_, ch := fieldChain(arg)
				return len(ch) > 0 && ch[len(ch)-1] == fRefIg
			})
			named = append(named, n2...)
			if len(named) > 0 && chk.Signature.Results().Len() == 2 {
				silent := ""
				for _, e := range named {
					reach(Site{e.To, -1}, func(in ssa.Instruction) bool {
						r, isR := in.(*ssa.Return)
						if !isR {
							return false
						}
						vals := returnValues(r)
						if k, isC := vals[0].(*ssa.Const); isC && k.Value != nil && k.Value.String() == "false" && isNilConst(vals[1]) {
							silent = w.Pos(instrPos(r))
						}
						return false
					}, nil)
				}
				c.Check("R5.3", fmt.Sprintf("%s/named-reference-resolved-or-rejected", fnName(chk)), chk.Pos(), silent == "",
					"a reference that names an integration is reported as resolved or rejected with an error; it returns (false, nil) at "+silent)
			}
		}
	}
}

// sameAddr: two pointer values denote the same memory (not a copy of it):
// the same value, the same element of the same slice variable, or the same
// field of the same address.
func sameAddr(a, b ssa.Value) bool {
	a, b = stripConv(a), stripConv(b)
	if a == b {
		return true
	}
	switch x := a.(type) {
	case *ssa.IndexAddr:
		if y, ok := b.(*ssa.IndexAddr); ok {
			return sameVar(x.X, y.X) && x.Index == y.Index
		}
	case *ssa.FieldAddr:
		if y, ok := b.(*ssa.FieldAddr); ok {
			return x.Field == y.Field && sameAddr(x.X, y.X)
		}
	case *ssa.UnOp:
		// loads of the same pointer variable
		if y, ok := b.(*ssa.UnOp); ok && x.Op == token.MUL && y.Op == token.MUL {
			if _, isAlloc := x.X.(*ssa.Alloc); isAlloc && x.X == y.X && x.Type() == y.Type() {
				if _, isPtr := x.Type().Underlying().(*types.Pointer); isPtr {
					return true
				}
			}
		}
	}
	return false
}

// nonNilErrorMarker: a value that stands for "some non-nil error" in a scenario
func nonNilErrorMarker(fn *ssa.Function) ssa.Value { return errMarker }

var errMarker = &ssa.Alloc{}

// runBoundaryCounter reads l as  k + n  where n is a loop-carried counter that only ever grows by one, and
// only on the outcome "differ" of a comparison of two neighbouring elements (indices one apart) of a slice that
// is handed to a sorting routine of package slices/sort in the same function. Such a counter is bounded by its
// start value plus the number of places where neighbours of the sorted slice differ, i.e. by
// start + (number of different elements - 1) on a non-empty slice. Reports start+k and the slice.
func runBoundaryCounter(aff *affEnv, l lin) (init int64, slice ssa.Value, ok bool) {
	var phi *ssa.Phi
	for a, k := range l.t {
		if k == 0 {
			continue
		}
		p, isPhi := aff.vals[a].(*ssa.Phi)
		if k != 1 || !isPhi || phi != nil {
			return 0, nil, false
		}
		phi = p
	}
	if phi == nil {
		return 0, nil, false
	}
	// leaves of the counter: through the joins inside the loop body down to constants, the counter itself, or counter+1
	var incs []*ssa.BinOp
	nInit := 0
	seen := map[ssa.Value]bool{}
	bad := false
	var leaves func(v ssa.Value, top bool)
	leaves = func(v ssa.Value, top bool) {
		v = stripNum(stripConv(v))
		if v == ssa.Value(phi) && !top {
			return
		}
		if seen[v] {
			return
		}
		seen[v] = true
		switch x := v.(type) {
		case *ssa.Phi:
			for _, e := range x.Edges {
				leaves(e, false)
			}
		case *ssa.Const:
			if c, isInt := constInt(x); isInt && nInit == 0 {
				init, nInit = c, 1
			} else {
				bad = true
			}
		case *ssa.BinOp:
			one, isOne := constInt(x.Y)
			if x.Op == token.ADD && isOne && one == 1 && reachesPhi(x.X, phi, 0) {
				incs = append(incs, x)
			} else {
				bad = true
			}
		default:
			bad = true
		}
	}
	leaves(phi, true)
	if bad || nInit != 1 || len(incs) == 0 {
		return 0, nil, false
	}
	fn := phi.Parent()
	for _, inc := range incs {
		// the block of the increment is entered only on the "differ" outcome of a neighbour comparison
		blk := inc.Block()
		if len(blk.Preds) != 1 {
			return 0, nil, false
		}
		pred := blk.Preds[0]
		iff, isIf := pred.Instrs[len(pred.Instrs)-1].(*ssa.If)
		if !isIf {
			return 0, nil, false
		}
		cmp, isCmp := stripConv(iff.Cond).(*ssa.BinOp)
		if !isCmp {
			return 0, nil, false
		}
		onTrue := pred.Succs[0] == blk
		if !(cmp.Op == token.NEQ && onTrue) && !(cmp.Op == token.EQL && !onTrue) {
			return 0, nil, false
		}
		s1, i1, ok1 := elemOf(cmp.X)
		s2, i2, ok2 := elemOf(cmp.Y)
		if !ok1 || !ok2 || stripConv(s1) != stripConv(s2) {
			return 0, nil, false
		}
		d := aff.Of(i1).sub(aff.Of(i2))
		if !linEq(d, konst(1)) && !linEq(d, konst(-1)) {
			return 0, nil, false
		}
		if slice != nil && slice != stripConv(s1) {
			return 0, nil, false
		}
		slice = stripConv(s1)
	}
	sorted := false
	allInstrs(fn, func(in ssa.Instruction) {
		call, isCall := in.(*ssa.Call)
		if !isCall || len(call.Call.Args) == 0 || stripConv(call.Call.Args[0]) != slice {
			return
		}
		cal := call.Call.StaticCallee()
		if cal == nil {
			return
		}
		if o := cal.Origin(); o != nil {
			cal = o
		}
		if cal.Pkg == nil {
			return
		}
		switch cal.Pkg.Pkg.Path() + "." + cal.Name() {
		case "slices.Sort", "sort.Strings", "slices.SortFunc", "slices.SortStableFunc", "sort.Sort", "sort.Stable":
			sorted = true
		}
	})
	if !sorted {
		return 0, nil, false
	}
	return init + l.c, slice, true
}

func reachesPhi(v ssa.Value, phi *ssa.Phi, d int) bool {
	v = stripNum(stripConv(v))
	if v == ssa.Value(phi) {
		return true
	}
	if p, ok := v.(*ssa.Phi); ok && d < 4 {
		for _, e := range p.Edges {
			if !reachesPhi(e, phi, d+1) {
				return false
			}
		}
		return len(p.Edges) > 0
	}
	return false
}
