package main

import (
	"fmt"
	"go/token"
	"go/types"
	"strings"

	"golang.org/x/tools/go/ssa"
)

func init() { register("C20", propC20) }

func propC20(c *Ctx) {
	c.Explanation = "Structural necessary conditions of 'exactly the configured tasks, one runner each': (R20.1) loadTasks appends a task inside the loops over all merged integrations × that integration's sources, only for enabled integrations, only after both name look-ups succeeded (their not-found arms return an error) and NewTask returned nil; the task's settings are fields of the looked-up source config and the integration is the loop's integration; (R20.2) in AllIntegrations/AllSources file entries are stored into the merge map after database entries, keyed by Name; (R20.3) Run takes the generation lock first and releases it only by defer, returns on the success path only after wg.Wait(), every runner goroutine is preceded by wg.Add(1) and calls wg.Done after runTask on every path; Restart closes the stop channel before starting the new Run and returns its start-up error; (R20.4) runTask polls the stop channel before every Converge and returns on it; (R20.5) the stop channel is accessed under the generation lock (known finding F-11c). Timing of restarts and equality of the loaded set with the configured set as values are run-time."
	w := c.W
	res := NewResolver(w)
	lm := newLoadTasksModel(c)
	lt := lm.fn

	// ---- R20.1 ----------------------------------------------------------
	c.Rule("R20.1", "task construction in loadTasks: loops, enabled test, look-ups with error arms, settings from the looked-up source config", 8)
	fEnabled := w.Field("shovel/config", "Integration", "Enabled")
	fSources := w.Field("shovel/config", "Integration", "Sources")
	fName := w.Field("shovel/config", "Source", "Name")
	// the append of the new task (loadTasks itself, or the helper that assembles the tasks: buildTasks)
	var appendCall *ssa.Call
	ntTask := extractOf(lm.newTask, 0)
	var isNewTask func(v ssa.Value, d int) bool
	isNewTask = func(v ssa.Value, d int) bool { // the task NewTask returned, also when a helper hands it on
		if v == ntTask {
			return true
		}
		if call, k := resultOf(v); call != nil && d < 3 {
			for _, r := range lm.reg.Results(call, k) {
				if isNewTask(r, d+1) {
					return true
				}
			}
		}
		return false
	}
	for _, ci := range lm.reg.Calls() {
		call, isCall := ci.(*ssa.Call)
		if !isCall || calleeName(call) != "builtin append" {
			continue
		}
		if vs, ok := varargValues(call.Call.Args[1]); ok && len(vs) == 1 && isNewTask(vs[0], 0) {
			appendCall = call
		}
	}
	liftTo := func(in ssa.Instruction, fn *ssa.Function) ssa.Instruction {
		for _, at := range lm.reg.chain(in) {
			if at.Parent() == fn {
				return at
			}
		}
		return nil
	}
	if appendCall == nil {
		c.Violation("R20.1", "loadTasks/append-task", lt.Pos(), "the task returned by NewTask is not appended to the result")
	} else {
		af := appendCall.Parent() // the function that assembles the tasks
		// returned slice is the appended one
		retOK := false
		for _, rv := range lm.reg.SuccessReturns() {
			if len(rv.Vals) == 2 {
				for _, lf := range phiLeaves(rv.Vals[0]) {
					if lf.Val == ssa.Value(appendCall) {
						retOK = true
					}
				}
			}
		}
		c.Check("R20.1", "loadTasks/append-task", appendCall.Pos(), retOK, "every constructed task is appended to the returned slice")
		enT, _ := func() (t, f []Edge) {
			lm.reg.AllInstrs(func(in ssa.Instruction) {
				u, ok := in.(*ssa.UnOp)
				if !ok || u.Op != token.MUL {
					return
				}
				if lf, base := fieldOf(u.X); lf == fEnabled && lm.igVal != nil && sameElem(base, lm.igVal) {
					a, b := boolEdges(u)
					t, f = append(t, a...), append(f, b...)
				}
			})
			return
		}()
		enOK := len(enT) > 0 && lm.reg.Guarded(appendCall, enT)
		if !enOK && lm.igVal != nil {
			// the disabled ones removed up front: for _, ig := range slices.DeleteFunc(all, func(ig) bool { return !ig.Enabled })
			if s, _, ok := elemOf(lm.igVal); ok && enabledFilterOf(lm, s) {
				enOK = true
			}
		}
		c.Check("R20.1", "loadTasks/enabled-test", appendCall.Pos(), enOK, "a task is built only when the integration's Enabled flag is set")
		// look-ups
		nLk := 0
		lm.reg.AllInstrs(func(in ssa.Instruction) {
			lk, ok := in.(*ssa.Lookup)
			if !ok || !lk.CommaOk {
				return
			}
			lfn := lk.Parent()
			if !isRepoFunc(lfn) || lfn.Pkg == nil || lfn.Pkg != lt.Pkg {
				return // look-ups inside other packages' functions are not part of assembling the tasks
			}
			if _, isMap := lk.X.Type().Underlying().(*types.Map); !isMap {
				return
			}
			nLk++
			var okV ssa.Value
			for _, ref := range *lk.Referrers() {
				if e, ok := ref.(*ssa.Extract); ok && e.Index == 1 {
					okV = e
				}
			}
			good := okV != nil
			if okV != nil {
				t, f := boolEdges(okV)
				good = len(f) > 0
				for _, e := range f {
					if g, _ := errorArmLeaves(lfn, e, t, nil); !g {
						good = false
					}
				}
				if lfn == af {
					good = good && guardedByEdges(af, appendCall, t)
				} else if lm.reg.Guarded(appendCall, t) {
					// the look-up stands in a caller of the assembling function, before it
				} else {
					// in a helper: its error is handed on and the task is appended only when it is nil
					site, _ := liftTo(lk, af).(*ssa.Call)
					if site == nil || !callErrorArmReturns(site) {
						good = false
					} else if e, has := errResult(site); has && e != nil {
						isNil, _ := nilTestEdges(e)
						good = good && guardedByEdges(af, appendCall, isNil)
					}
				}
			}
			// keyed by the source reference's name
			kroot, chain := lm.chain(lk.Index)
			keyOK := chainIs(chain, fName) && (lm.isSourceRefElem(kroot) || lm.isSourceRefOfSameCollection(kroot))
			c.Check("R20.1", fmt.Sprintf("loadTasks/lookup#%d", nLk), lk.Pos(), good && keyOK, "look-up by the source reference's Name; a missing entry is a start-up error, not a silently missing task")
		})
		// one look-up may serve both (a map of {config, client} records); where each of the two comes
		// from is decided below (source-config-from-AllSourcesByName, WithSource)
		if nLk < 1 {
			c.Violation("R20.1", "loadTasks/lookups", lt.Pos(), fmt.Sprintf("expected the source-config and the source-client look-ups, found %d", nLk))
		}
		// NewTask error (handed on unchanged by a helper that ends in `return NewTask(…)`: judged where it is tested)
		ntCall := lm.newTask
		for d := 0; d < 3 && ntCall.Parent() != af; d++ {
			e0, _ := errResult(ntCall)
			fn := ntCall.Parent()
			passes := e0 != nil
			for _, r := range returnsOf(fn) {
				if vals := returnValues(r); len(vals) == 0 || vals[len(vals)-1] != e0 {
					passes = false
				}
			}
			site, _ := lm.reg.site[fn].(*ssa.Call)
			if !passes || site == nil {
				break
			}
			ntCall = site
		}
		if e, ok := errResult(ntCall); ok && e != nil {
			isNil, nonNil := nilTestEdges(e)
			good := ntCall.Parent() == af && guardedByEdges(af, appendCall, isNil) && len(nonNil) > 0
			for _, ed := range nonNil {
				if g, _ := errorArmLeaves(af, ed, isNil, nil); !g {
					good = false
				}
			}
			c.Check("R20.1", "loadTasks/NewTask-error", lm.newTask.Pos(), good, "a task that failed to construct aborts start-up")
		} else {
			c.Violation("R20.1", "loadTasks/NewTask-error", lm.newTask.Pos(), "NewTask's error is dropped")
		}
		// loops: outer over AllIntegrations result, inner over ig.Sources
		okOuter := false
		if lm.igVal != nil {
			if s, idx, ok := elemOf(lm.igVal); ok && isInduction(idx) {
				if call, k := resultOf(lm.reg.Resolve(stripConv(s))); call != nil && k == 0 {
					if f := staticCallee(call); f != nil && f.Name() == "AllIntegrations" {
						okOuter = true
					}
				}
				if enabledFilterOf(lm, s) {
					okOuter = true
				}
			}
		}
		c.Check("R20.1", "loadTasks/outer-loop", lt.Pos(), okOuter, "the integration handed to the task is the loop element of AllIntegrations()'s result")
		okInner := false
		if lm.withRange != nil {
			root, _ := lm.chain(lm.withRange.Call.Args[0])
			okInner = lm.isSourceRefElem(root)
		}
		c.Check("R20.1", "loadTasks/inner-loop", lt.Pos(), okInner, "one task per element of the integration's Sources")
		checkOneTaskPerReferencedSource(c, "R20.1", lm, appendCall)
	}
	// settings from the looked-up source config
	{
		// sc = scByName[scRef.Name] (value of the first lookup); find it through WithSrcName's argument root
		var scRoot ssa.Value
		var scPrefix []*types.Var
		if o := lm.opts["WithSrcName"]; o != nil {
			r, ch := lm.deep(o.Call.Args[0])
			if len(ch) >= 1 {
				scRoot, scPrefix = r, ch[:len(ch)-1]
			}
		}
		fromLookup := false
		{
			if lk := lookupOf(scRoot); lk != nil {
				mp := lm.val(lk.X)
				if call, k := resultOf(mp); call != nil && k == 0 && len(scPrefix) == 0 {
					if f := staticCallee(call); f != nil && f.Name() == "AllSourcesByName" {
						fromLookup = true
					}
				}
				// or a map of records built here: every record stored under a source config's Name
				// carries that very config in the field the settings are read from
				if mk, ok := mp.(*ssa.MakeMap); ok && len(scPrefix) == 1 {
					fromLookup = recordsOfAllSources(lm, mk, scPrefix[0], fName)
				}
			}
		}
		c.Check("R20.1", "loadTasks/source-config-from-AllSourcesByName", lt.Pos(), fromLookup, "the source settings come from the entry of AllSourcesByName() selected by the reference's name")
		for _, spec := range []struct {
			opt    string
			fields []string
		}{{"WithConcurrency", []string{"Concurrency", "BatchSize"}}, {"WithPollDuration", []string{"PollDuration"}}, {"WithChainID", []string{"ChainID"}}, {"WithSrcName", []string{"Name"}}} {
			o := lm.opts[spec.opt]
			good := o != nil
			if o != nil {
				for i, fn := range spec.fields {
					root, chain := lm.deep(o.Call.Args[i])
					want := append(append([]*types.Var{}, scPrefix...), w.Field("shovel/config", "Source", fn))
					if !chainIs(chain, want...) || root != scRoot {
						good = false
					}
				}
			}
			pos := lt.Pos()
			if o != nil {
				pos = o.Pos()
			}
			c.Check("R20.1", "loadTasks/"+spec.opt, pos, good, fmt.Sprintf("%s receives %v of the looked-up source config", spec.opt, spec.fields))
		}
		// the source client is the one registered under the same name
		if o := lm.opts["WithSource"]; o != nil {
			good := false
			// the client is the looked-up value, or a field of it (one map of {config, client} records)
			droot, _ := lm.deep(lm.val(o.Call.Args[0]))
			if lk := lookupOf(droot); lk != nil {
				root, chain := lm.chain(lk.Index)
				good = chainIs(chain, fName) && lm.isSourceRefElem(root)
			}
			c.Check("R20.1", "loadTasks/WithSource", o.Pos(), good, "the source client is looked up by the same reference name")
		} else {
			c.Violation("R20.1", "loadTasks/WithSource", lt.Pos(), "no source client is handed to the task")
		}
		_ = fSources
	}

	// ---- R20.2 ----------------------------------------------------------
	c.Rule("R20.2", "file configuration overrides database rows: file entries are stored into the merge map after database entries, keyed by Name", 2)
	for _, spec := range []struct {
		fn, dbCallee, confField, typ string
	}{
		{"Root.AllIntegrations", "Integrations", "Integrations", "Integration"},
		{"Root.AllSources", "Sources", "Sources", "Source"},
	} {
		fn := w.Fn("shovel/config", spec.fn)
		fConf := w.Field("shovel/config", "Root", spec.confField)
		fNm := w.Field("shovel/config", spec.typ, "Name")
		var dbStore, fileStore *ssa.MapUpdate
		allInstrs(fn, func(in ssa.Instruction) {
			mu, ok := in.(*ssa.MapUpdate)
			if !ok {
				return
			}
			// value: loop element; key: its Name
			s, idx, ok := elemOf(mu.Value)
			if !ok || !isInduction(idx) {
				return
			}
			kroot, kchain := fieldChain(mu.Key)
			if !chainIs(kchain, fNm) || !sameElem(kroot, mu.Value) {
				return
			}
			if call, k := resultOf(s); call != nil && k == 0 {
				if f := staticCallee(call); f != nil && f.Name() == spec.dbCallee {
					dbStore = mu
				}
				return
			}
			if _, ch := fieldChain(s); len(ch) == 1 && ch[0] == fConf {
				fileStore = mu
			}
		})
		// the rule reads one algorithm: a merge map keyed by name, written by both inputs.  A function
		// that stores no collection element into any map merges some other way (a helper shared by both
		// merges, an ordered de-duplication): which entry wins there is not decided by this rule.
		anyElemStore := false
		allInstrs(fn, func(in ssa.Instruction) {
			if mu, ok := in.(*ssa.MapUpdate); ok {
				if _, _, isElem := elemOf(mu.Value); isElem {
					anyElemStore = true
				}
			}
		})
		if !anyElemStore {
			// a second algorithm that is read: both lists concatenated, sorted by name, reduced to the FIRST of
			// each run of equal names (slices.CompactFunc): the file entries have to come first in the
			// concatenation and the sort has to be stable
			var compact, sortCall *ssa.Call
			for _, ci := range callsIn(fn) {
				call, isCall := ci.(*ssa.Call)
				if !isCall {
					continue
				}
				switch n := calleeName(call); {
				case strings.HasPrefix(n, "slices.CompactFunc") || strings.HasPrefix(n, "slices.Compact"):
					compact = call
				case strings.HasPrefix(n, "slices.SortStableFunc") || strings.HasPrefix(n, "slices.SortFunc") || strings.HasPrefix(n, "sort.Slice"):
					sortCall = call
				}
			}
			if compact != nil {
				origin := func(v ssa.Value) string {
					v = stripConv(v)
					if sl, isSl := v.(*ssa.Slice); isSl {
						v = stripConv(sl.X)
					}
					if call, k := resultOf(v); call != nil && k == 0 {
						if f := staticCallee(call); f != nil && f.Name() == spec.dbCallee {
							return "db"
						}
					}
					if _, ch := fieldChain(v); len(ch) >= 1 && ch[len(ch)-1] == fConf {
						return "file"
					}
					return ""
				}
				// the order of the concatenation handed to compact: append(append(nil, file…), db…), append(file, db…)
				var order func(v ssa.Value, d int) []string
				order = func(v ssa.Value, d int) []string {
					v = stripConv(v)
					if o := origin(v); o != "" {
						return []string{o}
					}
					if isNilConst(v) {
						return nil
					}
					if mk, isMk := v.(*ssa.MakeSlice); isMk {
						if n, isC := constInt(mk.Len); isC && n == 0 {
							return nil
						}
					}
					if call, isCall := v.(*ssa.Call); isCall && d < 6 {
						if bi, isB := call.Call.Value.(*ssa.Builtin); isB && bi.Name() == "append" && len(call.Call.Args) == 2 {
							o := origin(call.Call.Args[1])
							if o == "" {
								o = "?"
							}
							return append(order(call.Call.Args[0], d+1), o)
						}
					}
					return []string{"?"}
				}
				first, second := "", ""
				if len(compact.Call.Args) > 0 {
					if o := order(compact.Call.Args[0], 0); len(o) == 2 && o[0] != "?" && o[1] != "?" {
						first, second = o[0], o[1]
					}
				}
				stable := sortCall != nil && strings.HasPrefix(calleeName(sortCall), "slices.SortStableFunc")
				if first != "" {
					good := first == "file" && second == "db" && stable
					c.Check("R20.2", fnName(fn)+"/file-after-db", fn.Pos(), good,
						fmt.Sprintf("concatenate–sort–compact keeps the first entry of each name: the concatenation starts with the %s entries (file wanted), stable sort: %v", first, stable))
					continue
				}
			}
			c.OK("R20.2", fnName(fn)+"/file-after-db", fn.Pos(), "no collection element is stored into a map in this function: the merge is not done by the algorithm this rule reads; not decided")
			continue
		}
		good := dbStore != nil && fileStore != nil
		detail := "both stores found"
		if good {
			r1, _ := reach(siteOf(fileStore), isInstr(dbStore), nil)
			r2, _ := reach(siteOf(dbStore), isInstr(fileStore), nil)
			good = !r1 && r2 && dbStore.Map == fileStore.Map
			if r1 {
				detail = "a database entry can be stored after a file entry"
			}
		} else {
			detail = "cannot find the database and file stores into the merge map keyed by Name"
		}
		// every entry is stored: the stores are not subject to any condition but their loop's
		if good {
			for _, mu := range []*ssa.MapUpdate{dbStore, fileStore} {
				for _, b := range fn.Blocks {
					iff, ok := terminator(b).(*ssa.If)
					if !ok || !b.Dominates(mu.Block()) || b == mu.Block() {
						continue
					}
					if bo, ok := iff.Cond.(*ssa.BinOp); ok && bo.Op == token.LSS && isInduction(bo.X) {
						continue // loop condition
					}
					// error test of the database read is fine (it returns)
					if bo, ok := iff.Cond.(*ssa.BinOp); ok && isNilConst(bo.Y) {
						continue
					}
					good = false
					detail = "an entry is stored into the merge map only under a condition: a skipped file entry cannot shadow the database entry of the same name"
				}
			}
		}
		c.Check("R20.2", fnName(fn)+"/file-after-db", fn.Pos(), good, detail)
	}

	// ---- R20.3 ----------------------------------------------------------
	c.Rule("R20.3", "one generation at a time: Run holds the lock from entry to return, waits for all runners; Restart stops the old generation first", 6)
	// run is the generation body (Run = load the current stop channel under its mutex, then run)
	run := w.Fn("shovel", "(*Manager).run")
	runExported := w.Fn("shovel", "(*Manager).Run")
	runTask := w.Fn("shovel", "(*Manager).runTask")
	fRunning := w.Field("shovel", "Manager", "running")
	fRestart := w.FieldMaybe("shovel", "Manager", "restart")
	if fRestart == nil {
		// the stop token under another name, possibly wrapped (`current generation` with the channel
		// inside): the Manager field of the type the generation body is started with
		if mst, ok := w.Named("shovel", "Manager").Underlying().(*types.Struct); ok && len(run.Params) == 3 {
			var cands []*types.Var
			for i := 0; i < mst.NumFields(); i++ {
				if types.Identical(mst.Field(i).Type(), run.Params[2].Type()) {
					cands = append(cands, mst.Field(i))
				}
			}
			if len(cands) == 1 {
				fRestart = cands[0]
			}
			// … or kept, with its mutex, in a small value of its own (`gens generations{mut, curr}`): the
			// member of that type in a struct type of the package
			if fRestart == nil {
				scope := run.Pkg.Pkg.Scope()
				for _, name := range scope.Names() {
					tn, isTN := scope.Lookup(name).(*types.TypeName)
					if !isTN {
						continue
					}
					st, isSt := tn.Type().Underlying().(*types.Struct)
					if !isSt {
						continue
					}
					for i := 0; i < st.NumFields(); i++ {
						if types.Identical(st.Field(i).Type(), run.Params[2].Type()) {
							cands = append(cands, st.Field(i))
						}
					}
				}
				if len(cands) == 1 {
					fRestart = cands[0]
				}
			}
		}
		if fRestart == nil {
			fatalf("anchor: field shovel.Manager.restart not found")
		}
	}
	// the mutex that guards it: restartMut, or the only mutex of the struct that holds it
	restartMutName := "restartMut"
	if owner := structOfField(run.Pkg.Pkg, fRestart); owner != nil {
		var muts []string
		has := false
		for i := 0; i < owner.NumFields(); i++ {
			if n := namedOf(owner.Field(i).Type()); n != nil && n.Obj().Pkg() != nil && n.Obj().Pkg().Path() == "sync" && (n.Obj().Name() == "Mutex" || n.Obj().Name() == "RWMutex") {
				muts = append(muts, owner.Field(i).Name())
				if owner.Field(i).Name() == restartMutName {
					has = true
				}
			}
		}
		if !has && len(muts) == 1 {
			restartMutName = muts[0]
		}
	}
	// chanOfToken: v is the stop channel of the token value tok: tok itself, or its channel member
	chanMember := func(v ssa.Value) (ssa.Value, bool) {
		v = stripConv(v)
		if _, isCh := v.Type().Underlying().(*types.Chan); !isCh {
			return nil, false
		}
		switch x := v.(type) {
		case *ssa.Field:
			return x.X, true
		case *ssa.UnOp:
			if fa, ok := x.X.(*ssa.FieldAddr); ok && x.Op == token.MUL {
				return fa.X, true
			}
		}
		return nil, false
	}
	// isCurrentStop: v is the channel of the Manager's current token (read from the field)
	isCurrentStop := func(reg *Region, v ssa.Value) bool {
		if isLoadOfField(v, fRestart) {
			return true
		}
		// the receiver of a method of the channel type (func (g generation) stop() { close(g) }): what it is called on
		if rv := reg.Resolve(stripConv(v)); rv != v && isLoadOfField(stripConv(rv), fRestart) {
			return true
		}
		base, ok := chanMember(v)
		if !ok {
			return false
		}
		b := reg.Resolve(stripConv(base))
		if al, isAl := b.(*ssa.Alloc); isAl {
			if cv := cellValue(al); cv != nil {
				b = reg.Resolve(stripConv(cv)) // the spilled value receiver
			}
		}
		if isLoadOfField(b, fRestart) {
			return true
		}
		if fa, isFA := b.(*ssa.FieldAddr); isFA {
			f, _ := fieldOf(fa)
			return f == fRestart
		}
		return false
	}
	// freshToken: v is a channel made here, or a token whose channel member is made by the
	// constructor call v is the result of
	freshToken := func(v ssa.Value) bool {
		if _, ok := v.(*ssa.MakeChan); ok {
			return true
		}
		st, ok := v.Type().Underlying().(*types.Struct)
		if !ok {
			return false
		}
		for i := 0; i < st.NumFields(); i++ {
			if _, isCh := st.Field(i).Type().Underlying().(*types.Chan); !isCh {
				continue
			}
			fv, ok := fieldValue(cv(v), i, false, 0)
			if !ok {
				return false
			}
			u := unfold(fv)
			_, isMk := u.v.(*ssa.MakeChan)
			return isMk && (len(u.stack) > 0 || u.v.(*ssa.MakeChan).Parent() == v.(ssa.Instruction).Parent())
		}
		return false
	}
	// stopParam: the parameter a polled channel belongs to (the channel itself, a member of it,
	// or what a getter of it hands out)
	stopParam := func(v ssa.Value) *ssa.Parameter {
		if p, ok := accessPath(v).Root.(*ssa.Parameter); ok {
			return p
		}
		c := unfoldV(v)
		if _, isCall := c.v.(*ssa.Call); isCall {
			if in, ok := unfoldGetter(c); ok {
				c = in
			}
		}
		root, _ := deepFieldChainC(c)
		return rootParam(root)
	}
	var lockCall *ssa.Call
	var deferUnlock *ssa.Defer
	explicitUnlock := false
	for _, ci := range callsIn(run) {
		r, op := lockOp(ci)
		if op == "" {
			continue
		}
		f, _ := fieldOf(r)
		if f != fRunning {
			continue
		}
		switch x := ci.(type) {
		case *ssa.Call:
			if op == "lock" {
				lockCall = x
			} else {
				explicitUnlock = true
			}
		case *ssa.Defer:
			if op == "unlock" {
				deferUnlock = x
			}
		}
	}
	lockFirst := lockCall != nil
	if lockCall != nil {
		for _, ci := range callsIn(run) {
			if ci == ssa.CallInstruction(lockCall) {
				continue
			}
			if _, isDefer := ci.(*ssa.Defer); isDefer {
				continue
			}
			if !dominatesInstr(lockCall, ci) {
				lockFirst = false
			}
		}
	}
	c.Check("R20.3", "Run/lock-first", run.Pos(), lockFirst, "Manager.running is locked before anything else happens in Run")
	c.Check("R20.3", "Run/unlock-only-by-defer", run.Pos(), deferUnlock != nil && !explicitUnlock, "the lock is released by defer only (held until Run returns)")
	// the rest on the inlined view of run: the runner loop and the Wait may live in a helper (runAll)
	rreg := NewRegion(run)
	var waitCall ssa.CallInstruction
	for _, ci := range rreg.Calls() {
		if _, isCall := ci.(*ssa.Call); isCall && calleeName(ci) == "(*sync.WaitGroup).Wait" {
			waitCall = ci
		}
	}
	okWait := waitCall != nil
	if waitCall != nil {
		// every return not on the loadTasks-error arm is dominated by Wait
		lts := callsToFn(run, lt)
		var errArm []Edge
		if len(lts) == 1 {
			if e, ok := errResult(lts[0]); ok && e != nil {
				_, errArm = nilTestEdges(e)
			}
		}
		for _, r := range returnsOf(run) {
			onErr := len(errArm) > 0 && guardedByEdges(run, r, errArm)
			if !onErr && !rreg.Dominates(waitCall, r) {
				okWait = false
			}
		}
	}
	c.Check("R20.3", "Run/returns-after-Wait", run.Pos(), okWait, "on the success path Run returns only after wg.Wait()")
	nGo := 0
	rreg.AllInstrs(func(in ssa.Instruction) {
		g, ok := in.(*ssa.Go)
		if !ok {
			return
		}
		mc, ok := g.Call.Value.(*ssa.MakeClosure)
		if !ok {
			return
		}
		cf := mc.Fn.(*ssa.Function)
		rts := callsToFn(cf, runTask)
		if len(rts) == 0 {
			return
		}
		nGo++
		gfn := g.Parent()
		addOK := false
		for _, ci := range callsNamed(gfn, "(*sync.WaitGroup).Add") {
			arg := ci.Common().Args[1]
			if n, ok := constInt(arg); ok && n == 1 && ci.Block() == g.Block() && dominatesInstr(ci, g) {
				addOK = true // one per iteration
			}
			// or all at once: Add(len(X)) before a loop over X that starts one goroutine per element
			if x, ok := lenArg(arg); ok && dominatesInstr(ci, g) {
				for _, col := range loopCollections(g) {
					if sameVar(col, x) || stripConv(col) == stripConv(x) {
						addOK = true
					}
				}
			}
		}
		doneOK := false
		for _, d := range callsNamed(cf, "(*sync.WaitGroup).Done") {
			if _, isDefer := d.(*ssa.Defer); isDefer {
				if hit, _ := reach(entrySite(cf), isInstr(rts[0]), newCuts().addInstr(d)); !hit {
					doneOK = true // deferred before the task runs: released on every exit
				}
				continue
			}
			exits, _ := reach(entrySite(cf), isExit, newCuts().addInstr(d))
			if !exits && dominatesInstr(rts[0], d) {
				doneOK = true
			}
		}
		c.Check("R20.3", fmt.Sprintf("Run/runner#%d", nGo), g.Pos(), addOK && doneOK, fmt.Sprintf("the wait group is incremented once per runner before it starts (%v); the goroutine calls wg.Done after runTask on every path (%v)", addOK, doneOK))
		chOK := false
		if args := rts[0].Call.Args; len(args) == 3 {
			v := args[2]
			for i := 0; i < 4; i++ {
				k := accessPath(v)
				p, ok := k.Root.(*ssa.Parameter)
				if !ok || k.Path != "" {
					break
				}
				if p.Parent() == run && paramIndex(p) == 2 {
					chOK = true
					break
				}
				nv := rreg.Resolve(p)
				if nv == ssa.Value(p) {
					break
				}
				v = nv
			}
		}
		c.Check("R20.3", fmt.Sprintf("Run/runner#%d-stop-channel", nGo), g.Pos(), chOK, "the runner polls the stop channel this generation was started with (run's parameter), not another one")
	})
	if nGo == 0 {
		c.Violation("R20.3", "Run/runner", run.Pos(), "Run starts no runner goroutine")
	}
	rs := w.Fn("shovel", "(*Manager).Restart")
	sreg := NewRegion(rs) // closing and replacing the channel may live in a helper (nextGeneration)
	var closeCall, goRun ssa.Instruction
	var ecArg ssa.Value
	sreg.AllInstrs(func(in ssa.Instruction) {
		switch x := in.(type) {
		case *ssa.Call:
			if b, ok := x.Call.Value.(*ssa.Builtin); ok && b.Name() == "close" && isCurrentStop(sreg, x.Call.Args[0]) {
				closeCall = x
			}
		case *ssa.Go:
			if staticCallee(x) == run && x.Parent() == rs {
				goRun = x
				ecArg = x.Call.Args[1]
			}
		}
	})
	sconst := sreg.ConstCuts() // tm.stopChan(true): the `if renew` inside is decided at this call
	okRestart := closeCall != nil && goRun != nil && sreg.DominatesUnder(closeCall, goRun, sconst)
	okRet := false
	for _, r := range returnsOf(rs) {
		if u, ok := returnValues(r)[0].(*ssa.UnOp); ok && u.Op == token.ARROW && u.X == ecArg {
			okRet = true
		}
	}
	c.Check("R20.3", "Restart/close-then-Run", rs.Pos(), okRestart, "the stop channel is closed before the next generation is started")
	c.Check("R20.3", "Restart/returns-startup-error", rs.Pos(), okRet, "Restart returns what run reports on the channel it was given")
	// the generation being started gets a fresh channel, installed as the
	// current one after the old one was closed
	{
		// the stores to Manager.restart in Restart's region
		var stores []*ssa.Store
		sreg.AllInstrs(func(in ssa.Instruction) {
			if st, ok := in.(*ssa.Store); ok {
				if f, _ := fieldOf(st.Addr); f == fRestart {
					stores = append(stores, st)
				}
			}
		})
		// what the generation is started with: a channel made here, possibly read back from the field
		// it was just stored into (`tm.restart = make(…); return tm.restart`, one store, lock held)
		var fresh ssa.Value
		var installedBy *ssa.Store
		if g, ok := goRun.(*ssa.Go); ok && len(g.Call.Args) == 3 {
			lv := sreg.Leaves(g.Call.Args[2])
			if debugOn() {
				for _, l := range lv {
					fmt.Printf("DEBUG fresh leaf %T %s fresh=%v\n", l, sym(l), freshToken(l))
				}
			}
			if len(lv) == 1 {
				switch x := lv[0].(type) {
				case *ssa.MakeChan:
					fresh = x
				case *ssa.UnOp:
					domSt := len(stores) == 1 && stores[0].Parent() == x.Parent() && dominatesInstr(stores[0], x)
					if !domSt && len(stores) == 1 && stores[0].Parent() == x.Parent() {
						// … under the constant argument of this call
						c2 := newCuts().addInstr(stores[0])
						for e := range sconst.Edges {
							c2.Edges[e] = true
						}
						if hit, _ := reach(entrySite(x.Parent()), isInstr(x), c2); !hit {
							domSt = true
						}
					}
					if isLoadOfField(x, fRestart) && domSt {
						if freshToken(stores[0].Val) && sameBase(stores[0].Addr, x.X) {
							fresh = stores[0].Val
						}
					} else if freshToken(x) {
						fresh = x // the literal an inlined constructor returns
					}
				default:
					if freshToken(x) {
						fresh = x
					}
				}
			}
		}
		installed := false
		for _, st := range stores {
			same := st.Val == fresh
			if lv := sreg.Leaves(st.Val); !same && len(lv) == 1 && lv[0] == fresh {
				same = true
			}
			if fresh != nil && same && closeCall != nil && sreg.DominatesUnder(closeCall, st, sconst) && sreg.DominatesUnder(st, goRun, sconst) {
				installed = true
				installedBy = st
			}
		}
		_ = installedBy
		// no other store to the field in Restart
		nStores := 0
		for _, fn := range w.RepoFuncs() {
			allInstrs(fn, func(in ssa.Instruction) {
				if st, ok := in.(*ssa.Store); ok {
					if f, _ := fieldOf(st.Addr); f == fRestart && !isLocalAlloc(accessPath(st.Addr.(*ssa.FieldAddr).X).Root) {
						nStores++
					}
				}
			})
		}
		c.Check("R20.3", "Restart/fresh-channel", rs.Pos(), fresh != nil && installed && nStores == 1,
			fmt.Sprintf("the new generation runs on a channel made by this Restart (%v) which is installed as Manager.restart after the old one was closed and before the generation starts (%v); it is the only assignment of the field outside the constructor (%d)", fresh != nil, installed, nStores))
	}
	// Run = run(ec, current channel)
	{
		good := false
		ereg := NewRegion(runExported)
		for _, call := range callsToFn(runExported, run) {
			args := call.Call.Args
			if len(args) != 3 {
				continue
			}
			p, isParam := args[1].(*ssa.Parameter)
			cur := true
			lv := ereg.Leaves(args[2])
			for _, l := range lv {
				if !isLoadOfField(l, fRestart) {
					cur = false
				}
			}
			if isParam && p.Parent() == runExported && cur && len(lv) > 0 {
				good = true
			}
		}
		c.Check("R20.3", "Run/runs-on-current-channel", runExported.Pos(), good, "Run starts the generation body with its ec and the current Manager.restart")
	}
	// Run reports on ec: error on failure, close on success
	{
		lts := callsToFn(run, lt)
		good := len(lts) == 1
		if good {
			e, _ := errResult(lts[0])
			isNil, nonNil := nilTestEdges(e)
			sendOK, closeOK := false, false
			allInstrs(run, func(in ssa.Instruction) {
				switch x := in.(type) {
				case *ssa.Send:
					if p, ok := x.Chan.(*ssa.Parameter); ok && p.Parent() == run && guardedByEdges(run, x, nonNil) {
						sendOK = true
					}
				case *ssa.Call:
					if b, ok := x.Call.Value.(*ssa.Builtin); ok && b.Name() == "close" {
						if p, ok := x.Call.Args[0].(*ssa.Parameter); ok && p.Parent() == run && guardedByEdges(run, x, isNil) {
							closeOK = true
						}
					}
				}
			})
			good = sendOK && closeOK
		}
		c.Check("R20.3", "Run/reports-startup-outcome", run.Pos(), good, "a loadTasks error is sent on ec; success closes ec")
	}

	// ---- R20.4 ----------------------------------------------------------
	c.Rule("R20.4", "runTask polls the stop channel before every Converge and returns on it", 1)
	conv := w.Fn("shovel", "(*Task).Converge")
	okSel := false
	detail := "select on the stop channel parameter precedes every Converge"
	// a poll is a select with a receive on the stop channel, in runTask itself or in a boolean
	// helper it hands the channel to (`for !stopRequested(restart)`); its stop edges are the
	// edges on which the receive was the case taken
	type poll struct {
		at   ssa.Instruction
		stop []Edge
	}
	selectStop := func(fn *ssa.Function, isChan func(ssa.Value) bool) (sel *ssa.Select, taken, other []Edge) {
		allInstrs(fn, func(in ssa.Instruction) {
			sl, ok := in.(*ssa.Select)
			if !ok || sel != nil {
				return
			}
			idx := -1
			for i, st := range sl.States {
				if st.Dir == types.RecvOnly && isChan(st.Chan) {
					idx = i
				}
			}
			if idx < 0 {
				return
			}
			var idxV ssa.Value
			for _, ref := range *sl.Referrers() {
				if e, ok := ref.(*ssa.Extract); ok && e.Index == 0 {
					idxV = e
				}
			}
			if idxV == nil {
				return
			}
			t, f := cmpEdges(fn, func(b *ssa.BinOp) bool {
				n, ok := constInt(b.Y)
				return b.Op == token.EQL && b.X == idxV && ok && int(n) == idx
			})
			if len(t) > 0 {
				sel, taken, other = sl, t, f
			}
		})
		return
	}
	var polls []poll
	if sel, taken, _ := selectStop(runTask, func(v ssa.Value) bool {
		p := stopParam(v)
		return p != nil && p.Parent() == runTask && paramIndex(p) == 2
	}); sel != nil {
		polls = append(polls, poll{sel, taken})
	}
	for _, ci := range callsIn(runTask) {
		call, ok := ci.(*ssa.Call)
		h := staticCallee(ci)
		if !ok || h == nil || !isRepoFunc(h) || h == conv || !isBoolType(call.Type()) {
			continue
		}
		pi := -1
		for i, a := range call.Call.Args {
			if p, ok := accessPath(a).Root.(*ssa.Parameter); ok && p.Parent() == runTask && paramIndex(p) == 2 {
				pi = i
			}
		}
		if pi < 0 || pi >= len(h.Params) {
			continue
		}
		hp := h.Params[pi]
		sel, taken, _ := selectStop(h, func(v ssa.Value) bool { return stopParam(v) == hp })
		if sel == nil {
			continue
		}
		// the helper answers true exactly when the receive was taken
		exact := true
		for _, r := range returnsOf(h) {
			k, isConst := returnValues(r)[0].(*ssa.Const)
			if !isConst || k.Value == nil {
				exact = false
				continue
			}
			onStop := guardedByEdges(h, r, taken)
			if (k.Value.String() == "true") != onStop {
				exact = false
			}
		}
		if !exact {
			continue
		}
		t, _ := boolEdges(call)
		polls = append(polls, poll{call, t})
	}
	for _, p := range polls {
		good := len(p.stop) > 0
		for _, e := range p.stop {
			r, _ := reach(Site{e.To, -1}, func(x ssa.Instruction) bool {
				call, ok := x.(*ssa.Call)
				return ok && staticCallee(call) == conv
			}, nil)
			if r {
				good = false
				detail = "Converge is reachable from the stop arm"
			}
		}
		for _, cc := range callsToFn(runTask, conv) {
			if !dominatesInstr(p.at, cc) {
				good = false
				detail = "Converge can run without polling the stop channel first"
			}
			// and between two Converge calls the poll is passed again
			r, _ := reach(siteOf(cc), isInstr(cc), newCuts().addInstr(p.at))
			if r {
				good = false
				detail = "a second Converge can run without polling the stop channel again"
			}
		}
		if good {
			okSel = true
		}
	}
	c.Check("R20.4", "runTask/stop-before-converge", runTask.Pos(), okSel, detail)
	// the step runs in the runner itself: when runTask returns (and the generation's wait group is
	// released) no Converge of it is still in flight.  A step started with `go` outlives the runner.
	{
		var async []string
		sync := 0
		var visit func(f *ssa.Function, inGo bool, d int)
		seen := map[*ssa.Function]bool{}
		visit = func(f *ssa.Function, inGo bool, d int) {
			if f == nil || f.Blocks == nil || d > 3 || (seen[f] && !inGo) {
				return
			}
			seen[f] = true
			allInstrs(f, func(in ssa.Instruction) {
				switch x := in.(type) {
				case *ssa.Go:
					if staticCallee(x) == conv {
						async = append(async, w.Pos(x.Pos()))
						return
					}
					switch g := x.Call.Value.(type) {
					case *ssa.MakeClosure:
						visit(g.Fn.(*ssa.Function), true, d+1)
					case *ssa.Function:
						visit(g, true, d+1)
					}
				case *ssa.Call:
					cal := staticCallee(x)
					if cal == conv {
						if inGo {
							async = append(async, w.Pos(x.Pos()))
						} else {
							sync++
						}
						return
					}
					if cal != nil && isRepoFunc(cal) && cal.Pkg == runTask.Pkg && (cal.Parent() != nil || len(callsToFn(f, cal)) > 0) && d < 3 {
						visit(cal, inGo, d+1)
					}
				}
			})
		}
		visit(runTask, false, 0)
		c.Check("R20.4", "runTask/step-runs-in-the-runner", runTask.Pos(), sync > 0 && len(async) == 0,
			fmt.Sprintf("Converge is called by the runner itself (%d synchronous calls); started with `go` at: %v", sync, async))
	}

	// ---- R20.5 ----------------------------------------------------------
	c.Rule("R20.5", "Manager.restart (the current stop channel) is accessed with Manager.restartMut held (same discipline as C18 R18.3)", 3)
	oracle := newLockOracle(res)
	for _, fn := range w.RepoFuncs() {
		n := 0
		allInstrs(fn, func(in ssa.Instruction) {
			fa, ok := in.(*ssa.FieldAddr)
			if !ok {
				return
			}
			if f, _ := fieldOf(fa); f != fRestart {
				return
			}
			if isLocalAlloc(accessPath(fa.X).Root) {
				return
			}
			for _, ref := range *fa.Referrers() {
				if _, dbg := ref.(*ssa.DebugRef); dbg {
					continue
				}
				n++
				held, why := oracle.HeldAt(fn, ref, fa.X, restartMutName)
				c.Check("R20.5", fmt.Sprintf("%s/Manager.restart#%d", fnName(fn), n), instrPos(ref), held,
					"access to Manager.restart: "+why)
			}
		})
	}
	_ = res
	_ = strings.Join
}

// sameBase: two field addresses select a field of the same object (same root and path)
func sameBase(a, b ssa.Value) bool {
	fa, ok1 := a.(*ssa.FieldAddr)
	fb, ok2 := b.(*ssa.FieldAddr)
	if !ok1 || !ok2 || fa.Field != fb.Field {
		return false
	}
	ka, kb := accessPath(fa.X), accessPath(fb.X)
	return ka.Root == kb.Root && ka.Path == kb.Path
}

func isBoolType(t types.Type) bool {
	b, ok := t.Underlying().(*types.Basic)
	return ok && b.Info()&types.IsBoolean != 0
}

// deep: a field chain followed through single-assignment locals.  `found, ok := m[k]; sc := found.conf;
// use(sc.Name)` has root = the look-up's value and chain [conf, Name].
func (m *loadTasksModel) deep(v ssa.Value) (ssa.Value, []*types.Var) {
	root, ch := m.chain(v)
	for i := 0; i < 6; i++ {
		al, ok := root.(*ssa.Alloc)
		if !ok {
			break
		}
		cv := cellValue(al)
		if cv == nil {
			break
		}
		if _, isParam := cv.(*ssa.Parameter); isParam {
			break
		}
		r2, ch2 := m.chain(cv)
		if r2 == root {
			break
		}
		root, ch = r2, append(append([]*types.Var{}, ch2...), ch...)
	}
	return root, ch
}

// recordsOfAllSources: mk is a local map; every store into it puts, under the key elem.Name, a
// record whose field fld is elem itself, elem ranging over the result of AllSourcesByName().
func recordsOfAllSources(lm *loadTasksModel, mk *ssa.MakeMap, fld, fName *types.Var) bool {
	n := 0
	good := true
	lm.reg.AllInstrs(func(in ssa.Instruction) {
		mu, ok := in.(*ssa.MapUpdate)
		if !ok || lm.val(mu.Map) != ssa.Value(mk) {
			return
		}
		n++
		isElem := func(v ssa.Value) bool {
			// range value of AllSourcesByName()'s map, or element of a slice of its values
			if e, ok := v.(*ssa.Extract); ok {
				if nx, ok := e.Tuple.(*ssa.Next); ok && e.Index == 2 {
					if rg, ok := nx.Iter.(*ssa.Range); ok {
						if call, k := resultOf(lm.val(rg.X)); call != nil && k == 0 {
							if f := staticCallee(call); f != nil && f.Name() == "AllSourcesByName" {
								return true
							}
						}
					}
				}
			}
			return false
		}
		kroot, kch := lm.deep(mu.Key)
		if !chainIs(kch, fName) || !isElem(kroot) {
			// … or keyed by the range KEY of AllSourcesByName()'s map (entries are keyed by their Name there),
			// the record being built from the range VALUE of the same iteration
			ke, isKE := stripConv(mu.Key).(*ssa.Extract)
			if !isKE || ke.Index != 1 {
				good = false
				return
			}
			var elemV ssa.Value
			for _, ref := range *ke.Tuple.Referrers() {
				if e2, ok := ref.(*ssa.Extract); ok && e2.Index == 2 && isElem(e2) {
					elemV = e2
				}
			}
			if elemV == nil {
				good = false
				return
			}
			kroot = elemV
		}
		// the record built by a constructor (newTaskSource(sc, …) with `Source: sc`): the member the settings
		// are read from is the constructor's argument
		if call, isCall := stripConv(mu.Value).(*ssa.Call); isCall {
			idx := -1
			if st, ok := call.Type().Underlying().(*types.Struct); ok {
				for i := 0; i < st.NumFields(); i++ {
					if st.Field(i) == fld {
						idx = i
					}
				}
			}
			if idx < 0 {
				good = false
				return
			}
			fv, ok := fieldValue(cv(call), idx, false, 0)
			if !ok {
				good = false
				return
			}
			if u := unfold(fv); !u.top() || stripConv(u.v) != kroot {
				good = false
			}
			return
		}
		// the record: a local composite whose field fld was last set to the element
		ld, ok := mu.Value.(*ssa.UnOp)
		if !ok {
			good = false
			return
		}
		al, ok := ld.X.(*ssa.Alloc)
		if !ok {
			good = false
			return
		}
		idx := -1
		if st, ok := al.Type().Underlying().(*types.Pointer).Elem().Underlying().(*types.Struct); ok {
			for i := 0; i < st.NumFields(); i++ {
				if st.Field(i) == fld {
					idx = i
				}
			}
		}
		if idx < 0 {
			good = false
			return
		}
		d := newMemField(al, idx).At(ld)
		if d == nil || d.store == nil || d.whole {
			good = false
			return
		}
		vroot, vch := lm.deep(d.store.(*ssa.Store).Val)
		if len(vch) != 0 || vroot != kroot {
			good = false
		}
	})
	return good && n > 0
}

// lookupOf: v is the value of a map look-up (m[k], or the first result of v, ok := m[k])
func lookupOf(v ssa.Value) *ssa.Lookup {
	switch x := v.(type) {
	case *ssa.Lookup:
		if !x.CommaOk {
			return x
		}
	case *ssa.Extract:
		if lk, ok := x.Tuple.(*ssa.Lookup); ok && x.Index == 0 {
			return lk
		}
	}
	return nil
}

// isSourceRefOfSameCollection: v is an element of Y.Sources where Y is an element of the very
// collection the integration handed to the task is taken from (a validating pass over the same
// integrations in a loop of its own).
func (m *loadTasksModel) isSourceRefOfSameCollection(v ssa.Value) bool {
	s, idx, ok := elemOf(v)
	if !ok || !isInduction(idx) {
		return false
	}
	fSources := m.c.W.Field("shovel/config", "Integration", "Sources")
	root, chain := m.chain(s)
	if !chainIs(chain, fSources) || m.igVal == nil {
		return false
	}
	cs, _, ok1 := elemOf(root)
	is, _, ok2 := elemOf(m.igVal)
	if !ok1 || !ok2 {
		return false
	}
	return sameVar(m.val(cs), m.val(is)) || m.val(cs) == m.val(is)
}

// structOfField: the struct type of package pkg that declares field f
func structOfField(pkg *types.Package, f *types.Var) *types.Struct {
	scope := pkg.Scope()
	for _, name := range scope.Names() {
		tn, ok := scope.Lookup(name).(*types.TypeName)
		if !ok {
			continue
		}
		st, ok := tn.Type().Underlying().(*types.Struct)
		if !ok {
			continue
		}
		for i := 0; i < st.NumFields(); i++ {
			if st.Field(i) == f {
				return st
			}
		}
	}
	return nil
}

// enabledFilterOf: the list s is slices.DeleteFunc(AllIntegrations()'s result, pred) with pred(ig) = !ig.Enabled
func enabledFilterOf(lm *loadTasksModel, s ssa.Value) bool {
	call, k := resultOf(lm.reg.Resolve(stripConv(s)))
	if call == nil || k != 0 || len(call.Call.Args) != 2 {
		return false
	}
	if n := calleeName(call); n != "slices.DeleteFunc" && !strings.HasPrefix(n, "slices.DeleteFunc[") {
		return false
	}
	src, k2 := resultOf(lm.reg.Resolve(stripConv(call.Call.Args[0])))
	if src == nil || k2 != 0 {
		return false
	}
	if f := staticCallee(src); f == nil || f.Name() != "AllIntegrations" {
		return false
	}
	var pred *ssa.Function
	switch x := stripConv(call.Call.Args[1]).(type) {
	case *ssa.MakeClosure:
		pred = x.Fn.(*ssa.Function)
	case *ssa.Function:
		pred = x
	}
	if pred == nil || pred.Blocks == nil || len(pred.Params) != 1 {
		return false
	}
	fEnabled := lm.c.W.Field("shovel/config", "Integration", "Enabled")
	n := 0
	for _, r := range returnsOf(pred) {
		for _, lf := range phiLeaves(returnValues(r)[0]) {
			n++
			u, ok := lf.Val.(*ssa.UnOp)
			if !ok || u.Op != token.NOT {
				return false
			}
			f, base := loadedField(stripConv(u.X))
			if f == nil {
				if fv, isF := stripConv(u.X).(*ssa.Field); isF {
					f, base = fieldOf(fv)
				}
			}
			if f != fEnabled || !isParamOrCopy(base, pred, 0) {
				return false
			}
		}
	}
	return n > 0
}

// checkOneTaskPerReferencedSource (guards F-29): an integration that names one source twice must not get two
// tasks – two runners would drive the same (source, integration) pair. Read: a set local to the integration
// (made inside the loop over the integrations, outside the loop over its references), looked up with the
// reference's source name; the task is appended only when the name was not in it; the name joins the set in
// every iteration that goes on. Another way of comparing the names of two references is reported as present,
// not decided; none at all is the defect.
func checkOneTaskPerReferencedSource(c *Ctx, rule string, lm *loadTasksModel, appendCall *ssa.Call) {
	w := c.W
	lt := lm.fn
	fName := w.Field("shovel/config", "Source", "Name")
	const key = "loadTasks/one-task-per-referenced-source"
	isRefName := func(v ssa.Value) bool {
		root, ch := lm.chain(v)
		return len(ch) >= 1 && ch[len(ch)-1] == fName && root != nil && lm.isSourceRefElem(root)
	}
	sameKey := func(a, b ssa.Value) bool { return isRefName(a) && isRefName(b) }
	ok, detail := false, ""
	present := false
	lm.reg.AllInstrs(func(in ssa.Instruction) {
		if ok {
			return
		}
		lk, isLk := in.(*ssa.Lookup)
		if !isLk || !isRefName(lk.Index) {
			return
		}
		mk, isMk := stripConv(lm.reg.Resolve(stripConv(lk.X))).(*ssa.MakeMap)
		if !isMk {
			return
		}
		// a set: the element says nothing but "is in it"
		switch et := mk.Type().Underlying().(*types.Map).Elem().Underlying().(type) {
		case *types.Basic:
			if et.Kind() != types.Bool {
				return
			}
		case *types.Struct:
			if et.NumFields() != 0 {
				return
			}
		default:
			return
		}
		present = true
		fn := lk.Parent()
		var seen ssa.Value = lk
		if lk.CommaOk {
			seen = nil
			for _, ref := range *lk.Referrers() {
				if e, isE := ref.(*ssa.Extract); isE && e.Index == 1 {
					seen = e
				}
			}
		}
		if seen == nil {
			return
		}
		_, fresh := boolEdges(seen)
		var at ssa.Instruction
		for _, x := range lm.reg.chain(appendCall) {
			if x.Parent() == fn {
				at = x
			}
		}
		if len(fresh) == 0 || at == nil || !guardedByEdges(fn, at, fresh) {
			detail = "a task is appended although the source was referenced before by this integration"
			return
		}
		joins := false
		allInstrs(fn, func(x ssa.Instruction) {
			mu, isMu := x.(*ssa.MapUpdate)
			if !isMu || stripConv(lm.reg.Resolve(stripConv(mu.Map))) != ssa.Value(mk) || !sameKey(mu.Key, lk.Index) {
				return
			}
			if k, isK := mu.Value.(*ssa.Const); isK && k.Value != nil && k.Value.String() == "false" {
				return
			}
			if every, found := passesEveryCompletedIteration(mu); found && every {
				joins = true
			}
		})
		if !joins {
			detail = "a referenced source is not recorded: a second reference to it is not noticed"
			return
		}
		// the set belongs to one integration: made inside the loop over the integrations (or in a helper that
		// handles one integration), not once for all of them and not anew for every reference
		inner := loopHeaderOf(lk)
		if inner != nil && mk.Parent() == fn && naturalLoop(inner)[mk.Block()] {
			detail = "the set of referenced sources is made anew for every reference: it never holds an earlier one"
			return
		}
		if mk.Parent() == lt && loopHeaderOf(mk) == nil && inner != nil {
			// made before both loops: shared by all integrations
			outerOfInner := false
			for _, b := range lt.Blocks {
				if lp := naturalLoop(b); lp != nil && lp[inner] && b != inner {
					outerOfInner = true
				}
			}
			if outerOfInner {
				detail = "the set of referenced sources is shared by all integrations: a source referenced by two integrations is refused"
				return
			}
		}
		ok, detail = true, "an integration that names one source twice gets one task for it at most (the second reference is refused or passed over): no pair has two runners"
	})
	if ok || detail != "" {
		c.Check(rule, key, lt.Pos(), ok, detail)
		return
	}
	// another way of telling two references to one source apart
	other := false
	for _, f := range lm.reg.Funcs() {
		allInstrs(f, func(in ssa.Instruction) {
			if b, isB := in.(*ssa.BinOp); isB && (b.Op == token.EQL || b.Op == token.NEQ) {
				_, c1 := fieldChain(b.X)
				_, c2 := fieldChain(b.Y)
				if len(c1) > 0 && len(c2) > 0 && c1[len(c1)-1] == fName && c2[len(c2)-1] == fName {
					other = true
				}
			}
		})
	}
	if other || present {
		c.OK(rule, key, lt.Pos(), "the names of two source references are compared, in a form that is not read: not decided")
		return
	}
	c.Violation(rule, key, lt.Pos(), "nothing tells two references of one integration to the same source apart: each gets a task, two runners drive one (source, integration) pair")
}
