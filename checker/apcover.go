package main

// apcover.go (analysis A6): access-path coverage.
//
//   typePaths: all access paths from a root struct type to fields selected by
//   a predicate, recursion unrolled K times (Inputs[*], Inputs[*].Components[*], …).
//
//   apWalker: abstractly walks a validator function (and the repo functions /
//   closures it calls, recursion unrolled K times), binding parameters to
//   access paths, and records every call together with the access paths of
//   its arguments.  "Which configuration positions does CheckUserInput hand to
//   wstrings.Safe" is then a set of strings comparable with typePaths.

import (
	"go/token"
	"go/types"
	"sort"
	"strings"

	"golang.org/x/tools/go/ssa"
)

const unrollK = 3

type typePath struct {
	Path  string
	Field *types.Var
	Type  types.Type
}

// typePaths enumerates paths (".A.B[*].C") from root to every field for which
// want(field, owner) is true.  Slices/arrays/maps add "[*]".  A named struct
// may appear at most unrollK times on one path.
func typePaths(root types.Type, want func(f *types.Var, owner *types.Named) bool) []typePath {
	var out []typePath
	onStack := map[*types.Named]int{}
	var walk func(t types.Type, path string)
	walk = func(t types.Type, path string) {
		switch u := t.(type) {
		case *types.Pointer:
			walk(u.Elem(), path)
			return
		case *types.Slice:
			walk(u.Elem(), path+"[*]")
			return
		case *types.Array:
			walk(u.Elem(), path+"[*]")
			return
		case *types.Map:
			walk(u.Elem(), path+"[*]")
			return
		case *types.Alias:
			walk(types.Unalias(u), path)
			return
		}
		named, _ := t.(*types.Named)
		st, ok := t.Underlying().(*types.Struct)
		if !ok {
			return
		}
		if named != nil {
			if onStack[named] >= unrollK {
				return
			}
			onStack[named]++
			defer func() { onStack[named]-- }()
		}
		for i := 0; i < st.NumFields(); i++ {
			f := st.Field(i)
			p := path + "." + f.Name()
			if want(f, named) {
				out = append(out, typePath{p, f, f.Type()})
			}
			walk(f.Type(), p)
		}
	}
	walk(root, "")
	sort.Slice(out, func(i, j int) bool { return out[i].Path < out[j].Path })
	return out
}

// leafStringPaths: for a field whose type is string, []string, [][]string:
// the element paths.
func stringLeaf(p typePath) (string, bool) {
	t := p.Type
	path := p.Path
	for {
		switch u := t.Underlying().(type) {
		case *types.Slice:
			t = u.Elem()
			path += "[*]"
			continue
		case *types.Basic:
			if u.Kind() == types.String {
				return path, true
			}
		}
		return "", false
	}
}

type apEvent struct {
	Cond   bool // reached only under a data-dependent condition (not every element is visited)
	Call   ssa.CallInstruction
	In     *ssa.Function
	Callee string // calleeName or closure name
	Fns    []*ssa.Function
	Paths  []string // per argument ("" = no path)
}

type apWalker struct {
	cond   bool
	res    *Resolver
	events []apEvent
	stack  map[*ssa.Function]int
	stop   map[*ssa.Function]bool // do not descend
}

func newAPWalker(res *Resolver) *apWalker {
	return &apWalker{res: res, stack: map[*ssa.Function]int{}, stop: map[*ssa.Function]bool{}}
}

type apEnv map[ssa.Value]string

func (e apEnv) clone() apEnv {
	o := apEnv{}
	for k, v := range e {
		o[k] = v
	}
	return o
}

// pathOf: the access path denoted by v under env ("" , false if none).
func (w *apWalker) pathOf(v ssa.Value, env apEnv) (string, bool) {
	return w.pathOfD(v, env, 0)
}

func (w *apWalker) pathOfD(v ssa.Value, env apEnv, d int) (string, bool) {
	if d > 40 || v == nil {
		return "", false
	}
	if p, ok := env[v]; ok {
		return p, true
	}
	switch x := v.(type) {
	case *ssa.ChangeType:
		return w.pathOfD(x.X, env, d+1)
	case *ssa.MakeInterface:
		return w.pathOfD(x.X, env, d+1)
	case *ssa.ChangeInterface:
		return w.pathOfD(x.X, env, d+1)
	case *ssa.Convert:
		return w.pathOfD(x.X, env, d+1)
	case *ssa.FieldAddr:
		f, _ := fieldOf(x)
		b, ok := w.pathOfD(x.X, env, d+1)
		if !ok {
			return "", false
		}
		return b + "." + f.Name(), true
	case *ssa.Field:
		f, _ := fieldOf(x)
		b, ok := w.pathOfD(x.X, env, d+1)
		if !ok {
			return "", false
		}
		return b + "." + f.Name(), true
	case *ssa.IndexAddr:
		b, ok := w.pathOfD(x.X, env, d+1)
		if !ok {
			return "", false
		}
		return b + "[*]", true
	case *ssa.Index:
		b, ok := w.pathOfD(x.X, env, d+1)
		if !ok {
			return "", false
		}
		return b + "[*]", true
	case *ssa.Lookup:
		if _, isMap := x.X.Type().Underlying().(*types.Map); !isMap {
			return "", false
		}
		b, ok := w.pathOfD(x.X, env, d+1)
		if !ok {
			return "", false
		}
		return b + "[*]", true
	case *ssa.Extract:
		// value of a map/string range: next(range(X))#2 ; lookup with ok: X[k],ok #0
		switch t := x.Tuple.(type) {
		case *ssa.Call:
			// strings.Cut(v, sep): the two halves of a validated-by-parts value
			if calleeName(t) == "strings.Cut" && x.Index < 2 {
				b, ok := w.pathOfD(t.Call.Args[0], env, d+1)
				if ok {
					return b + map[int]string{0: "#before", 1: "#after"}[x.Index], true
				}
			}
			return "", false
		case *ssa.Next:
			if x.Index == 2 {
				if rg, ok := t.Iter.(*ssa.Range); ok {
					b, ok := w.pathOfD(rg.X, env, d+1)
					if ok {
						return b + "[*]", true
					}
				}
			}
		case *ssa.Lookup:
			if x.Index == 0 {
				return w.pathOfD(t, env, d+1)
			}
		}
		return "", false
	case *ssa.UnOp:
		if x.Op != token.MUL {
			return "", false
		}
		switch y := x.X.(type) {
		case *ssa.Alloc:
			if cv := cellValue(y); cv != nil {
				return w.pathOfD(cv, env, d+1)
			}
			return "", false
		case *ssa.FreeVar:
			// captured cell: single store in the defining function
			if b := w.freeVarBinding(y); b != nil {
				if a, ok := b.(*ssa.Alloc); ok {
					if cv := cellValue(a); cv != nil {
						return w.pathOfD(cv, env, d+1)
					}
				}
			}
			return "", false
		default:
			return w.pathOfD(x.X, env, d+1)
		}
	case *ssa.Alloc:
		if cv := cellValue(x); cv != nil {
			return w.pathOfD(cv, env, d+1)
		}
		return "", false
	case *ssa.FreeVar:
		if b := w.freeVarBinding(x); b != nil {
			return w.pathOfD(b, env, d+1)
		}
		return "", false
	case *ssa.Slice:
		return w.pathOfD(x.X, env, d+1)
	case *ssa.Phi:
		// all edges with the same path
		var p string
		for i, e := range x.Edges {
			q, ok := w.pathOfD(e, env, d+1)
			if !ok {
				return "", false
			}
			if i > 0 && q != p {
				return "", false
			}
			p = q
		}
		return p, p != ""
	}
	return "", false
}

func (w *apWalker) freeVarBinding(fv *ssa.FreeVar) ssa.Value {
	fn := fv.Parent()
	idx := -1
	for i, x := range fn.FreeVars {
		if x == fv {
			idx = i
		}
	}
	p := fn.Parent()
	if p == nil && idx >= 0 && fn.Synthetic != "" && currentWorld != nil {
		// a bound-method wrapper (`add := ig.require`): bound where the method value is made
		var out ssa.Value
		n := 0
		for _, rf := range currentWorld.RepoFuncs() {
			allInstrs(rf, func(in ssa.Instruction) {
				if mc, ok := in.(*ssa.MakeClosure); ok && mc.Fn == fn {
					out = mc.Bindings[idx]
					n++
				}
			})
		}
		if n == 1 {
			return out
		}
		return nil
	}
	if p == nil || idx < 0 {
		return nil
	}
	var out ssa.Value
	allInstrs(p, func(in ssa.Instruction) {
		if mc, ok := in.(*ssa.MakeClosure); ok && mc.Fn == fn {
			out = mc.Bindings[idx]
		}
	})
	return out
}

// walk fn under env, recording calls whose arguments denote access paths and
// descending into repo callees.
func (w *apWalker) walk(fn *ssa.Function, env apEnv) {
	if fn == nil || fn.Blocks == nil || w.stack[fn] >= unrollK {
		return
	}
	w.stack[fn]++
	defer func() { w.stack[fn]-- }()
	for _, ci := range callsIn(fn) {
		cc := ci.Common()
		args := cc.Args
		paths := make([]string, len(args))
		any := false
		for i, a := range args {
			if p, ok := w.pathOf(a, env); ok {
				paths[i] = p
				any = true
			} else if sl, ok := a.(*ssa.Slice); ok {
				// variadic: take the single element path if there is one
				if vs, ok := varargValues(sl); ok && len(vs) == 1 && vs[0] != nil {
					if p, ok := w.pathOf(vs[0], env); ok {
						paths[i] = p
						any = true
					}
				}
			}
		}
		var recvPath string
		if cc.IsInvoke() {
			if p, ok := w.pathOf(cc.Value, env); ok {
				recvPath = p
				any = true
			}
		}
		callees := w.res.Callees(ci)
		condHere := w.cond || conditionalSite(fn, ci)
		if any {
			w.events = append(w.events, apEvent{Cond: condHere, Call: ci, In: fn, Callee: calleeName(ci), Fns: callees, Paths: paths})
		}
		for _, cal := range callees {
			if w.stop[cal] {
				continue
			}
			// only descend when some path flows in, or the callee is a closure of the walked code
			// (closures read captured paths)
			isLocalClosure := cal.Parent() != nil
			if !any && !isLocalClosure {
				continue
			}
			cenv := env.clone()
			off := 0
			if cc.IsInvoke() {
				off = 1
				if recvPath != "" && len(cal.Params) > 0 {
					cenv[cal.Params[0]] = recvPath
				}
			}
			for i := range args {
				if i+off < len(cal.Params) {
					if paths[i] != "" {
						cenv[cal.Params[i+off]] = paths[i]
					} else {
						delete(cenv, cal.Params[i+off])
					}
				}
			}
			saved := w.cond
			w.cond = condHere
			w.walk(cal, cenv)
			w.cond = saved
		}
	}
}

// conditionalSite: ci is control-dependent on a branch other than a loop
// condition or an "earlier error → return" guard.
func conditionalSite(fn *ssa.Function, ci ssa.Instruction) bool {
	for _, b := range fn.Blocks {
		iff, ok := terminator(b).(*ssa.If)
		if !ok || b == ci.Block() && false {
			continue
		}
		if !b.Dominates(ci.Block()) {
			continue
		}
		// does exactly one side lead to ci?
		r0, _ := reach(Site{b.Succs[0], -1}, isInstr(ci), nil)
		r1, _ := reach(Site{b.Succs[1], -1}, isInstr(ci), nil)
		if b == ci.Block() {
			continue
		}
		if r0 && r1 {
			// both sides can reach ci (loop back edges make this common); check bypass: can the function
			// leave through a side without executing ci in this iteration?  Approximate by dominance:
			if !(b.Succs[0].Dominates(ci.Block()) || b.Succs[1].Dominates(ci.Block())) {
				continue
			}
		}
		if allowedGuard(iff.Cond) {
			continue
		}
		if b.Succs[0].Dominates(ci.Block()) || b.Succs[1].Dominates(ci.Block()) {
			return true
		}
	}
	return false
}

func allowedGuard(cond ssa.Value) bool {
	switch x := cond.(type) {
	case *ssa.BinOp:
		if x.Op == token.LSS && isInduction(x.X) {
			return true
		}
		// err != nil / err == nil on an error cell or value
		if (x.Op == token.NEQ || x.Op == token.EQL) && isNilConst(x.Y) && isErrorType(x.X.Type()) {
			return true
		}
	case *ssa.Extract:
		if _, ok := x.Tuple.(*ssa.Next); ok && x.Index == 0 {
			return true
		}
	}
	return false
}

// pathsInto: the set of access paths passed as argument `arg` (or any
// argument when arg < 0) to calls matching pred.
func (w *apWalker) pathsInto(pred func(e *apEvent) bool, arg int) map[string][]ssa.CallInstruction {
	out := map[string][]ssa.CallInstruction{}
	for i := range w.events {
		e := &w.events[i]
		if !pred(e) {
			continue
		}
		for k, p := range e.Paths {
			if p != "" && (arg < 0 || k == arg) {
				out[p] = append(out[p], e.Call)
			}
		}
	}
	return out
}

func hasPrefixPath(p, prefix string) bool {
	return p == prefix || strings.HasPrefix(p, prefix+".") || strings.HasPrefix(p, prefix+"[")
}

// currentWorld: the program under analysis (set by the loader; used where a value has to be looked up program-wide)
var currentWorld *World
