package main

// apcover.go (analysis A6): access-path coverage.
//
//   typePaths: all access paths from a root struct type to fields selected by
//   a predicate, recursion unrolled K times (Inputs[*], Inputs[*].Components[*], …).
//
//   apWalker: abstractly walks a validator function (and the repo functions /
//   closures it calls, recursion unrolled K times), binding parameters to
//   access paths, and records every call together with the access paths of
//   its arguments.  "Which configuration positions does CheckUserInput hand to
//   wstrings.Safe" is then a set of strings comparable with typePaths.

import (
	"fmt"
	"go/token"
	"go/types"
	"sort"
	"strings"

	"golang.org/x/tools/go/ssa"
)

const unrollK = 3

type typePath struct {
	Path  string
	Field *types.Var
	Type  types.Type
}

// typePaths enumerates paths (".A.B[*].C") from root to every field for which
// want(field, owner) is true.  Slices/arrays/maps add "[*]".  A named struct
// may appear at most unrollK times on one path.
func typePaths(root types.Type, want func(f *types.Var, owner *types.Named) bool) []typePath {
	var out []typePath
	onStack := map[*types.Named]int{}
	var walk func(t types.Type, path string)
	walk = func(t types.Type, path string) {
		switch u := t.(type) {
		case *types.Pointer:
			walk(u.Elem(), path)
			return
		case *types.Slice:
			walk(u.Elem(), path+"[*]")
			return
		case *types.Array:
			walk(u.Elem(), path+"[*]")
			return
		case *types.Map:
			walk(u.Elem(), path+"[*]")
			return
		case *types.Alias:
			walk(types.Unalias(u), path)
			return
		}
		named, _ := t.(*types.Named)
		st, ok := t.Underlying().(*types.Struct)
		if !ok {
			return
		}
		if named != nil {
			if onStack[named] >= unrollK {
				return
			}
			onStack[named]++
			defer func() { onStack[named]-- }()
		}
		for i := 0; i < st.NumFields(); i++ {
			f := st.Field(i)
			p := path + "." + f.Name()
			if want(f, named) {
				out = append(out, typePath{p, f, f.Type()})
			}
			walk(f.Type(), p)
		}
	}
	walk(root, "")
	sort.Slice(out, func(i, j int) bool { return out[i].Path < out[j].Path })
	return out
}

// leafStringPaths: for a field whose type is string, []string, [][]string:
// the element paths.
func stringLeaf(p typePath) (string, bool) {
	t := p.Type
	path := p.Path
	for {
		switch u := t.Underlying().(type) {
		case *types.Slice:
			t = u.Elem()
			path += "[*]"
			continue
		case *types.Basic:
			if u.Kind() == types.String {
				return path, true
			}
		}
		return "", false
	}
}

type apEvent struct {
	Cond   bool // reached only under a data-dependent condition (not every element is visited)
	Call   ssa.CallInstruction
	In     *ssa.Function
	Callee string // calleeName or closure name
	Fns    []*ssa.Function
	Paths  []string // per argument ("" = no path)
}

type apWalker struct {
	cond   bool
	res    *Resolver
	events []apEvent
	stack  map[*ssa.Function]int
	stop   map[*ssa.Function]bool // do not descend

	// collections built on the way (collect-then-check, explicit work lists): the access paths of the
	// elements a local slice cell may hold, per cell and binding of its function's parameters
	content     map[string]map[string]bool
	contentCond map[string]bool   // some element is added only under a data-dependent condition
	choice      map[string]string // the element path currently assumed for a read of that cell
	depth       int
	grew        bool
}

func newAPWalker(res *Resolver) *apWalker {
	return &apWalker{res: res, stack: map[*ssa.Function]int{}, stop: map[*ssa.Function]bool{},
		content: map[string]map[string]bool{}, contentCond: map[string]bool{}, choice: map[string]string{}}
}

// sliceCell: v is (a slice of) the current value of a local slice variable that lives in a cell:
// the cell (resolved through closure captures).
func (w *apWalker) sliceCell(v ssa.Value) *ssa.Alloc {
	for i := 0; i < 4; i++ {
		switch x := v.(type) {
		case *ssa.Slice:
			v = x.X
			continue
		case *ssa.ChangeType:
			v = x.X
			continue
		case *ssa.UnOp:
			if x.Op != token.MUL {
				return nil
			}
			var al *ssa.Alloc
			switch y := x.X.(type) {
			case *ssa.Alloc:
				al = y
			case *ssa.FreeVar:
				al, _ = w.freeVarBinding(y).(*ssa.Alloc)
			}
			if al == nil {
				return nil
			}
			if _, ok := al.Type().Underlying().(*types.Pointer).Elem().Underlying().(*types.Slice); !ok {
				return nil
			}
			return al
		}
		return nil
	}
	return nil
}

func (w *apWalker) cellKey(a *ssa.Alloc, env apEnv) string {
	k := fmt.Sprintf("%s@%d", a.Parent().String(), a.Pos())
	for f := a.Parent(); f != nil; f = f.Parent() {
		for _, p := range f.Params {
			k += "|" + env[p]
		}
	}
	return k
}

// resultCell: call is a static call of a repo function whose only return hands out the
// content of one of its local slice cells: that cell and the environment it was filled under.
func (w *apWalker) resultCell(call *ssa.Call, env apEnv) (*ssa.Alloc, apEnv) {
	cal := staticCallee(call)
	if cal == nil || cal.Blocks == nil || !isRepoFunc(cal) {
		return nil, nil
	}
	rets := returnsOf(cal)
	if len(rets) != 1 || len(returnValues(rets[0])) != 1 {
		return nil, nil
	}
	al := w.sliceCell(returnValues(rets[0])[0])
	if al == nil || al.Parent() != cal {
		return nil, nil
	}
	cenv := env.clone()
	for i, a := range call.Call.Args {
		if i < len(cal.Params) {
			if p, ok := w.pathOf(a, env); ok {
				cenv[cal.Params[i]] = p
			} else {
				delete(cenv, cal.Params[i])
			}
		}
	}
	return al, cenv
}

func (w *apWalker) retKey(fn *ssa.Function, env apEnv) string {
	k := "ret:" + fn.String()
	for f := fn; f != nil; f = f.Parent() {
		for _, p := range f.Params {
			k += "|" + env[p]
		}
	}
	return k
}

// resultKey: the content key of the slice a static repo callee returns when it builds it as a value.
func (w *apWalker) resultKey(call *ssa.Call, env apEnv) (string, bool) {
	cal := staticCallee(call)
	if cal == nil || cal.Blocks == nil || !isRepoFunc(cal) || cal.Signature.Results().Len() != 1 {
		return "", false
	}
	if _, isSl := cal.Signature.Results().At(0).Type().Underlying().(*types.Slice); !isSl {
		return "", false
	}
	cenv := env.clone()
	for i, a := range call.Call.Args {
		if i < len(cal.Params) {
			if p, ok := w.pathOf(a, env); ok {
				cenv[cal.Params[i]] = p
			} else {
				delete(cenv, cal.Params[i])
			}
		}
	}
	return w.retKey(cal, cenv), true
}

// elemRead: v indexes a collection the walker knows the content of: the key of that collection.
func (w *apWalker) elemRead(coll, idx ssa.Value, env apEnv) (string, bool) {
	var key string
	var cell *ssa.Alloc
	if al := w.sliceCell(coll); al != nil {
		cell, key = al, w.cellKey(al, env)
	} else if call, ok := coll.(*ssa.Call); ok {
		if al, cenv := w.resultCell(call, env); al != nil {
			cell, key = al, w.cellKey(al, cenv)
		} else if k, ok := w.resultKey(call, env); ok {
			key = k // a list the callee builds as a plain value (appends joined by phis)
		}
	}
	if (cell == nil && key == "") || len(w.content[key]) == 0 {
		return "", false
	}
	// every element is visited: a range loop, or the head/tail of a list that is drained
	okIdx := isInduction(idx)
	if n, isK := constInt(idx); isK && n == 0 {
		okIdx = true
	}
	if b, isB := idx.(*ssa.BinOp); isB && b.Op == token.SUB {
		if n, isK := constInt(b.Y); isK && n == 1 {
			if ln, isLen := lenArg(b.X); isLen && w.sliceCell(ln) == cell {
				okIdx = true
			}
		}
	}
	if !okIdx {
		return "", false
	}
	return key, true
}

func (w *apWalker) addContent(key, p string, cond bool) {
	if strings.Count(p, "[*]") > 6 {
		return
	}
	if w.content[key] == nil {
		w.content[key] = map[string]bool{}
	}
	if !w.content[key][p] {
		w.content[key][p] = true
		w.grew = true
	}
	if cond && !w.contentCond[key] {
		w.contentCond[key] = true
		w.grew = true
	}
}

// recordContent: the stores of fn into local slice cells: `c = append(c, e…)`, `c = append(c, other…)`, `c = list`.
func (w *apWalker) recordContent(fn *ssa.Function, env apEnv) {
	// the list the function returns, built as a value: append calls joined by phis
	if fn.Signature.Results().Len() == 1 {
		if _, isSl := fn.Signature.Results().At(0).Type().Underlying().(*types.Slice); isSl {
			seen := map[ssa.Value]bool{}
			var back func(v ssa.Value, d int)
			key := w.retKey(fn, env)
			back = func(v ssa.Value, d int) {
				if v == nil || seen[v] || d > 24 {
					return
				}
				seen[v] = true
				switch x := v.(type) {
				case *ssa.Phi:
					for _, e := range x.Edges {
						back(e, d+1)
					}
				case *ssa.Slice:
					back(x.X, d+1)
				case *ssa.Call:
					if calleeName(x) != "builtin append" || len(x.Call.Args) != 2 {
						return
					}
					back(x.Call.Args[0], d+1)
					cond := w.cond || conditionalSite(fn, x)
					if sl, isSl := x.Call.Args[1].(*ssa.Slice); isSl {
						if vs, ok := varargValues(sl); ok {
							for _, e := range vs {
								if e == nil {
									continue
								}
								if p, ok := w.pathOf(e, env); ok {
									w.addContent(key, p, cond)
								} else if dsc, ok := w.literalDescriptor(e, env); ok {
									w.addContent(key, dsc, cond)
								}
							}
							return
						}
					}
					if p, ok := w.pathOf(x.Call.Args[1], env); ok {
						w.addContent(key, p+"[*]", cond)
					}
				}
			}
			for _, r := range returnsOf(fn) {
				back(returnValues(r)[0], 0)
			}
		}
	}
	allInstrs(fn, func(in ssa.Instruction) {
		st, ok := in.(*ssa.Store)
		if !ok {
			return
		}
		var cell *ssa.Alloc
		switch a := st.Addr.(type) {
		case *ssa.Alloc:
			cell = a
		case *ssa.FreeVar:
			cell, _ = w.freeVarBinding(a).(*ssa.Alloc)
		}
		if cell == nil {
			return
		}
		if _, isSl := cell.Type().Underlying().(*types.Pointer).Elem().Underlying().(*types.Slice); !isSl {
			return
		}
		key := w.cellKey(cell, env)
		cond := w.cond || conditionalSite(fn, st)
		val := st.Val
		if call, isCall := val.(*ssa.Call); isCall && calleeName(call) == "builtin append" && len(call.Call.Args) == 2 {
			if sl, isSl := call.Call.Args[1].(*ssa.Slice); isSl {
				if vs, ok := varargValues(sl); ok {
					for _, e := range vs {
						if e == nil {
							continue
						}
						if p, ok := w.pathOf(e, env); ok {
							w.addContent(key, p, cond)
						} else if d, ok := w.literalDescriptor(e, env); ok {
							w.addContent(key, d, cond)
						}
					}
					return
				}
			}
			// append(c, other...)
			val = call.Call.Args[1]
		}
		if oc := w.sliceCell(val); oc != nil {
			if oc != cell {
				for p := range w.content[w.cellKey(oc, env)] {
					w.addContent(key, p, cond)
				}
			}
			return
		}
		if p, ok := w.pathOf(val, env); ok {
			w.addContent(key, p+"[*]", cond)
		}
	})
}

// literalDescriptor: e is a struct literal some of whose members denote access paths
// (filterRef{ref: &inp.Filter.Ref, field: …}): "{0=<path>;…}" – a member read of an element
// with such a descriptor yields the member's path.
func (w *apWalker) literalDescriptor(e ssa.Value, env apEnv) (string, bool) {
	u, ok := e.(*ssa.UnOp)
	if !ok || u.Op != token.MUL {
		return "", false
	}
	al, ok := u.X.(*ssa.Alloc)
	if !ok {
		return "", false
	}
	var parts []string
	for _, ref := range *al.Referrers() {
		fa, ok := ref.(*ssa.FieldAddr)
		if !ok {
			continue
		}
		for _, r2 := range *fa.Referrers() {
			if st, ok := r2.(*ssa.Store); ok && st.Addr == ssa.Value(fa) {
				if p, ok := w.pathOf(st.Val, env); ok && !strings.HasPrefix(p, "{") {
					parts = append(parts, fmt.Sprintf("%d=%s", fa.Field, p))
				}
			}
		}
	}
	if len(parts) == 0 {
		return "", false
	}
	sort.Strings(parts)
	return "{" + strings.Join(parts, ";") + "}", true
}

func descriptorMember(d string, idx int) (string, bool) {
	if !strings.HasPrefix(d, "{") || !strings.HasSuffix(d, "}") {
		return "", false
	}
	pre := fmt.Sprintf("%d=", idx)
	for _, part := range strings.Split(d[1:len(d)-1], ";") {
		if strings.HasPrefix(part, pre) {
			return part[len(pre):], true
		}
	}
	return "", false
}

// contentReads: the collections with known content that fn reads elements of and for which no element is assumed yet.
func (w *apWalker) contentReads(fn *ssa.Function, env apEnv) []string {
	seen := map[string]bool{}
	var keys []string
	allInstrs(fn, func(in ssa.Instruction) {
		var coll, idx ssa.Value
		switch x := in.(type) {
		case *ssa.IndexAddr:
			coll, idx = x.X, x.Index
		case *ssa.Index:
			coll, idx = x.X, x.Index
		default:
			return
		}
		if k, ok := w.elemRead(coll, idx, env); ok && !seen[k] {
			if _, chosen := w.choice[k]; !chosen {
				seen[k] = true
				keys = append(keys, k)
			}
		}
	})
	sort.Strings(keys)
	return keys
}

type apEnv map[ssa.Value]string

func (e apEnv) clone() apEnv {
	o := apEnv{}
	for k, v := range e {
		o[k] = v
	}
	return o
}

// pathOf: the access path denoted by v under env ("" , false if none).
func (w *apWalker) pathOf(v ssa.Value, env apEnv) (string, bool) {
	return w.pathOfD(v, env, 0)
}

func (w *apWalker) pathOfD(v ssa.Value, env apEnv, d int) (string, bool) {
	if d > 40 || v == nil {
		return "", false
	}
	if p, ok := env[v]; ok {
		return p, true
	}
	switch x := v.(type) {
	case *ssa.ChangeType:
		return w.pathOfD(x.X, env, d+1)
	case *ssa.MakeInterface:
		return w.pathOfD(x.X, env, d+1)
	case *ssa.ChangeInterface:
		return w.pathOfD(x.X, env, d+1)
	case *ssa.Convert:
		return w.pathOfD(x.X, env, d+1)
	case *ssa.FieldAddr:
		f, _ := fieldOf(x)
		b, ok := w.pathOfD(x.X, env, d+1)
		if !ok {
			return "", false
		}
		if strings.HasPrefix(b, "{") {
			return descriptorMember(b, x.Field)
		}
		return b + "." + f.Name(), true
	case *ssa.Field:
		f, _ := fieldOf(x)
		b, ok := w.pathOfD(x.X, env, d+1)
		if !ok {
			return "", false
		}
		if strings.HasPrefix(b, "{") {
			return descriptorMember(b, x.Field)
		}
		return b + "." + f.Name(), true
	case *ssa.IndexAddr:
		if k, ok := w.elemRead(x.X, x.Index, env); ok {
			if p, ok := w.choice[k]; ok {
				return p, true
			}
		}
		b, ok := w.pathOfD(x.X, env, d+1)
		if !ok {
			return "", false
		}
		return b + "[*]", true
	case *ssa.Index:
		if k, ok := w.elemRead(x.X, x.Index, env); ok {
			if p, ok := w.choice[k]; ok {
				return p, true
			}
		}
		b, ok := w.pathOfD(x.X, env, d+1)
		if !ok {
			return "", false
		}
		return b + "[*]", true
	case *ssa.Lookup:
		if _, isMap := x.X.Type().Underlying().(*types.Map); !isMap {
			return "", false
		}
		b, ok := w.pathOfD(x.X, env, d+1)
		if !ok {
			return "", false
		}
		return b + "[*]", true
	case *ssa.Extract:
		// value of a map/string range: next(range(X))#2 ; lookup with ok: X[k],ok #0
		switch t := x.Tuple.(type) {
		case *ssa.Call:
			// strings.Cut(v, sep): the two halves of a validated-by-parts value
			if calleeName(t) == "strings.Cut" && x.Index < 2 {
				b, ok := w.pathOfD(t.Call.Args[0], env, d+1)
				if ok {
					return b + map[int]string{0: "#before", 1: "#after"}[x.Index], true
				}
			}
			return "", false
		case *ssa.Next:
			if x.Index == 2 {
				if rg, ok := t.Iter.(*ssa.Range); ok {
					b, ok := w.pathOfD(rg.X, env, d+1)
					if ok {
						return b + "[*]", true
					}
				}
			}
		case *ssa.Lookup:
			if x.Index == 0 {
				return w.pathOfD(t, env, d+1)
			}
		}
		return "", false
	case *ssa.UnOp:
		if x.Op != token.MUL {
			return "", false
		}
		switch y := x.X.(type) {
		case *ssa.Alloc:
			if cv := cellValue(y); cv != nil {
				return w.pathOfD(cv, env, d+1)
			}
			return "", false
		case *ssa.FreeVar:
			// captured cell: single store in the defining function
			if b := w.freeVarBinding(y); b != nil {
				if a, ok := b.(*ssa.Alloc); ok {
					if cv := cellValue(a); cv != nil {
						return w.pathOfD(cv, env, d+1)
					}
				}
			}
			return "", false
		default:
			return w.pathOfD(x.X, env, d+1)
		}
	case *ssa.Alloc:
		if cv := cellValue(x); cv != nil {
			return w.pathOfD(cv, env, d+1)
		}
		return "", false
	case *ssa.FreeVar:
		if b := w.freeVarBinding(x); b != nil {
			return w.pathOfD(b, env, d+1)
		}
		return "", false
	case *ssa.Slice:
		return w.pathOfD(x.X, env, d+1)
	case *ssa.Phi:
		// all edges with the same path
		var p string
		for i, e := range x.Edges {
			q, ok := w.pathOfD(e, env, d+1)
			if !ok {
				return "", false
			}
			if i > 0 && q != p {
				return "", false
			}
			p = q
		}
		return p, p != ""
	}
	return "", false
}

func (w *apWalker) freeVarBinding(fv *ssa.FreeVar) ssa.Value {
	fn := fv.Parent()
	idx := -1
	for i, x := range fn.FreeVars {
		if x == fv {
			idx = i
		}
	}
	p := fn.Parent()
	if p == nil && idx >= 0 && fn.Synthetic != "" && currentWorld != nil {
		// a bound-method wrapper (`add := ig.require`): bound where the method value is made
		var out ssa.Value
		n := 0
		for _, rf := range currentWorld.RepoFuncs() {
			allInstrs(rf, func(in ssa.Instruction) {
				if mc, ok := in.(*ssa.MakeClosure); ok && mc.Fn == fn {
					out = mc.Bindings[idx]
					n++
				}
			})
		}
		if n == 1 {
			return out
		}
		return nil
	}
	if p == nil || idx < 0 {
		return nil
	}
	var out ssa.Value
	allInstrs(p, func(in ssa.Instruction) {
		if mc, ok := in.(*ssa.MakeClosure); ok && mc.Fn == fn {
			out = mc.Bindings[idx]
		}
	})
	return out
}

// walk fn under env, recording calls whose arguments denote access paths and
// descending into repo callees.
func (w *apWalker) walk(fn *ssa.Function, env apEnv) {
	top := w.depth == 0
	w.depth++
	defer func() { w.depth-- }()
	if !top {
		w.walkChoices(fn, env)
		return
	}
	// collections are filled while walking: repeat until they are complete
	for iter := 0; iter < 8; iter++ {
		w.grew = false
		w.walkChoices(fn, env)
		if !w.grew {
			break
		}
	}
}

// walkChoices: walk fn once for every assumption about which element a read of a known collection yields.
func (w *apWalker) walkChoices(fn *ssa.Function, env apEnv) {
	if fn == nil || fn.Blocks == nil || w.stack[fn] >= unrollK {
		return
	}
	w.recordContent(fn, env)
	keys := w.contentReads(fn, env)
	total := 1
	for _, k := range keys {
		total *= len(w.content[k])
	}
	if len(keys) == 0 || total > 64 {
		w.walkOnce(fn, env)
		return
	}
	var rec func(i int)
	rec = func(i int) {
		if i == len(keys) {
			w.walkOnce(fn, env)
			return
		}
		k := keys[i]
		var ps []string
		for p := range w.content[k] {
			ps = append(ps, p)
		}
		sort.Strings(ps)
		for _, p := range ps {
			w.choice[k] = p
			saved := w.cond
			if w.contentCond[k] {
				w.cond = true // not every candidate was collected
			}
			rec(i + 1)
			w.cond = saved
		}
		delete(w.choice, k)
	}
	rec(0)
}

func (w *apWalker) walkOnce(fn *ssa.Function, env apEnv) {
	if fn == nil || fn.Blocks == nil || w.stack[fn] >= unrollK {
		return
	}
	w.stack[fn]++
	defer func() { w.stack[fn]-- }()
	w.recordContent(fn, env) // again under the elements assumed for this pass
	for _, ci := range callsIn(fn) {
		cc := ci.Common()
		args := cc.Args
		paths := make([]string, len(args))
		any := false
		for i, a := range args {
			if p, ok := w.pathOf(a, env); ok {
				paths[i] = p
				any = true
			} else if sl, ok := a.(*ssa.Slice); ok {
				// variadic: take the single element path if there is one
				if vs, ok := varargValues(sl); ok && len(vs) == 1 && vs[0] != nil {
					if p, ok := w.pathOf(vs[0], env); ok {
						paths[i] = p
						any = true
					}
				}
			}
		}
		var recvPath string
		if cc.IsInvoke() {
			if p, ok := w.pathOf(cc.Value, env); ok {
				recvPath = p
				any = true
			}
		}
		callees := w.res.Callees(ci)
		condHere := w.cond || conditionalSite(fn, ci)
		if any {
			w.events = append(w.events, apEvent{Cond: condHere, Call: ci, In: fn, Callee: calleeName(ci), Fns: callees, Paths: paths})
		}
		for _, cal := range callees {
			if w.stop[cal] {
				continue
			}
			// only descend when some path flows in, or the callee is a closure of the walked code
			// (closures read captured paths)
			isLocalClosure := cal.Parent() != nil
			if !any && !isLocalClosure {
				continue
			}
			cenv := env.clone()
			off := 0
			if cc.IsInvoke() {
				off = 1
				if recvPath != "" && len(cal.Params) > 0 {
					cenv[cal.Params[0]] = recvPath
				}
			}
			for i := range args {
				if i+off < len(cal.Params) {
					if paths[i] != "" {
						cenv[cal.Params[i+off]] = paths[i]
					} else {
						delete(cenv, cal.Params[i+off])
					}
				}
			}
			saved := w.cond
			w.cond = condHere
			w.walk(cal, cenv)
			w.cond = saved
		}
	}
}

// conditionalSite: ci is control-dependent on a branch other than a loop
// condition or an "earlier error → return" guard.
func conditionalSite(fn *ssa.Function, ci ssa.Instruction) bool {
	for _, b := range fn.Blocks {
		iff, ok := terminator(b).(*ssa.If)
		if !ok || b == ci.Block() && false {
			continue
		}
		if !b.Dominates(ci.Block()) {
			continue
		}
		// does exactly one side lead to ci?
		r0, _ := reach(Site{b.Succs[0], -1}, isInstr(ci), nil)
		r1, _ := reach(Site{b.Succs[1], -1}, isInstr(ci), nil)
		if b == ci.Block() {
			continue
		}
		if r0 && r1 {
			// both sides can reach ci (loop back edges make this common); check bypass: can the function
			// leave through a side without executing ci in this iteration?  Approximate by dominance:
			if !(b.Succs[0].Dominates(ci.Block()) || b.Succs[1].Dominates(ci.Block())) {
				continue
			}
		}
		if allowedGuard(iff.Cond) {
			continue
		}
		if b.Succs[0].Dominates(ci.Block()) || b.Succs[1].Dominates(ci.Block()) {
			return true
		}
	}
	return false
}

func allowedGuard(cond ssa.Value) bool {
	switch x := cond.(type) {
	case *ssa.BinOp:
		if x.Op == token.LSS && isInduction(x.X) {
			return true
		}
		// err != nil / err == nil on an error cell or value
		if (x.Op == token.NEQ || x.Op == token.EQL) && isNilConst(x.Y) && isErrorType(x.X.Type()) {
			return true
		}
		// `for len(todo) > 0`: a local work list is drained
		if n, isK := constInt(x.Y); isK && n == 0 && (x.Op == token.GTR || x.Op == token.NEQ) {
			if ln, isLen := lenArg(x.X); isLen {
				if u, ok := ln.(*ssa.UnOp); ok && u.Op == token.MUL {
					switch u.X.(type) {
					case *ssa.Alloc, *ssa.FreeVar:
						return true
					}
				}
			}
		}
	case *ssa.Extract:
		if _, ok := x.Tuple.(*ssa.Next); ok && x.Index == 0 {
			return true
		}
	}
	return false
}

// pathsInto: the set of access paths passed as argument `arg` (or any
// argument when arg < 0) to calls matching pred.
func (w *apWalker) pathsInto(pred func(e *apEvent) bool, arg int) map[string][]ssa.CallInstruction {
	out := map[string][]ssa.CallInstruction{}
	for i := range w.events {
		e := &w.events[i]
		if !pred(e) {
			continue
		}
		for k, p := range e.Paths {
			if p != "" && (arg < 0 || k == arg) {
				out[p] = append(out[p], e.Call)
			}
		}
	}
	return out
}

func hasPrefixPath(p, prefix string) bool {
	return p == prefix || strings.HasPrefix(p, prefix+".") || strings.HasPrefix(p, prefix+"[")
}

// currentWorld: the program under analysis (set by the loader; used where a value has to be looked up program-wide)
var currentWorld *World
