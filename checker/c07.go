package main

import (
	"fmt"
	"go/token"
	"go/types"
	"strings"

	"golang.org/x/tools/go/ssa"
)

func init() { register("C07", propC07) }

// embedsRPCError: t (struct or pointer to struct) embeds jrpc2.Error;
// returns the embedded field.
func embedsRPCError(t types.Type) *types.Var {
	if p, ok := t.Underlying().(*types.Pointer); ok {
		t = p.Elem()
	}
	st, ok := t.Underlying().(*types.Struct)
	if !ok {
		return nil
	}
	for i := 0; i < st.NumFields(); i++ {
		f := st.Field(i)
		if f.Embedded() && repoNamedIs(f.Type(), "jrpc2", "Error") {
			return f
		}
	}
	return nil
}

// respRoot: a response object in a fetch routine.
type respRoot struct {
	val    ssa.Value // Alloc (scalar), slice value (batch), or TypeAssert result (pointer)
	batch  bool
	errFld *types.Var
	desc   string
}

// rootOfAccess: for an address/field expression, the response root it belongs to.
func (r *respRoot) owns(base ssa.Value) bool {
	base = stripConv(base)
	if base == r.val {
		return true
	}
	// whole-struct load of the root / of an element: `t = *root; t.Field`
	if u, ok := base.(*ssa.UnOp); ok && u.Op == token.MUL {
		if u.X == r.val && !r.batch {
			return true
		}
		if r.batch {
			if ia, ok := u.X.(*ssa.IndexAddr); ok && sameVar(ia.X, r.val) {
				return true
			}
		}
	}
	if r.batch {
		if ia, ok := base.(*ssa.IndexAddr); ok {
			return sameVar(ia.X, r.val)
		}
		// load of element
		if s, _, ok := elemOf(base); ok {
			return sameVar(s, r.val)
		}
	}
	return false
}

func propC07(c *Ctx) {
	c.Explanation = "Error discipline of the JSON-RPC client, decided per call site of (*Client).do and per response object: (R7.1) the transport error is tested and its arm leaves with an error; (R7.2) for every decoded value that embeds jrpc2.Error (scalar, every element of a batch, each element of the heterogeneous logs reply) Error.Exists() of THAT value is tested on a path dominating every read of its result part (for batches: the loop over the whole slice has completed); (R7.3) a nullable result pointer is nil-tested before any dereference; (R7.4) in do, the body is decoded only on a 2xx status, the other arm returns an error, the decode error is tested; (R7.5) block-map look-ups test `ok`, out-of-range log/receipt block numbers are rejected before data is attached, validate() guards header/block segments; (R7.6) no error produced inside jrpc2 is dropped, except a short table of calls that cannot fail. Value equality of attached data is run-time."
	w := c.W
	do := w.Fn("jrpc2", "(*Client).do")
	jpkg := w.Pkg("jrpc2")
	var fns []*ssa.Function
	for _, fn := range w.RepoFuncs() {
		inPkg := fn.Pkg == jpkg
		if fn.Pkg == nil {
			if o := fn.Origin(); o != nil && o.Pkg == jpkg {
				inPkg = true // an instance of a generic function of the package (segmentOf[blockResp])
			}
		}
		if inPkg && len(callsToFn(fn, do)) > 0 {
			fns = append(fns, fn)
		}
	}
	c.Rule("R7.1", "the error of every (*Client).do call is tested; the failing arm leaves with an error and never rejoins the success path", 6)
	c.Rule("R7.2", "Error.Exists() of each decoded value is tested before any read of its result part", 6)
	c.Rule("R7.3", "a nullable result pointer is nil-tested before it is dereferenced", 3)
	existsFn := w.Fn("jrpc2", "Error.Exists")
	nhError := w.Fn("jrpc2", "(*NumHash).error")
	// the test every fetch path relies on: an error member with ANY non-zero code exists (providers
	// answer 2xx with positive codes too: 429 rate limits, geth's 3); false only when the code is zero
	{
		fCode := w.Field("jrpc2", "Error", "Code")
		isCode := func(v ssa.Value) bool { return fieldIsOrLoad(stripConv(v), fCode) }
		isZero := func(v ssa.Value) bool { n, ok := constInt(v); return ok && n == 0 }
		zeroT, _ := cmpEdgesV(existsFn, token.EQL, isCode, isZero)
		_, zeroF := cmpEdgesV(existsFn, token.NEQ, isCode, isZero)
		zero := append(zeroT, zeroF...)
		good, n := true, 0
		for _, r := range returnsOf(existsFn) {
			for _, lf := range phiLeaves(returnValues(r)[0]) {
				n++
				if b, ok := lf.Val.(*ssa.BinOp); ok && b.Op == token.NEQ && isCode(b.X) && isZero(b.Y) {
					continue
				}
				if k, ok := lf.Val.(*ssa.Const); ok && k.Value != nil && k.Value.String() == "true" {
					continue
				}
				if lf.Phi != nil && lf.Pred != nil && (edgeGuarded(existsFn, lf.Pred, lf.Phi.Block(), zero) || guardedByEdges(existsFn, terminator(lf.Pred), zero)) {
					continue // whatever is answered here, the code is zero
				}
				if guardedByEdges(existsFn, r, zero) {
					continue
				}
				good = false
			}
		}
		c.Check("R7.2", "Error.Exists/true-for-every-nonzero-code", existsFn.Pos(), good && n > 0, "Exists() may answer false only when Code == 0 (an error member with a positive code is an error too)")
		// F-27: … and only when there is no message either (an error object without a code)
		{
			fMsg := w.FieldMaybe("jrpc2", "Error", "Message")
			isMsg := func(v ssa.Value) bool {
				if fMsg == nil {
					return false
				}
				if lf, _ := loadedField(stripConv(v)); lf == fMsg {
					return true
				}
				if fv, ok := stripConv(v).(*ssa.Field); ok {
					lf, _ := fieldOf(fv)
					return lf == fMsg
				}
				if arg, isLen := lenArg(v); isLen {
					lf, _ := loadedField(stripConv(arg))
					if lf == fMsg {
						return true
					}
					if fv, ok := stripConv(arg).(*ssa.Field); ok {
						lf2, _ := fieldOf(fv)
						return lf2 == fMsg
					}
				}
				return false
			}
			isEmptyConst := func(v ssa.Value) bool {
				if s, ok := constString(v); ok {
					return s == ""
				}
				k, ok := constInt(v)
				return ok && k == 0
			}
			var noMsg []Edge // edges on which the message is known to be empty
			var msgCmps []*ssa.BinOp
			allInstrs(existsFn, func(in ssa.Instruction) {
				b, ok := in.(*ssa.BinOp)
				if !ok || !isMsg(b.X) || !isEmptyConst(b.Y) {
					return
				}
				t, f := boolEdges(b)
				switch b.Op {
				case token.NEQ, token.GTR:
					noMsg = append(noMsg, f...)
					msgCmps = append(msgCmps, b)
				case token.EQL:
					noMsg = append(noMsg, t...)
				}
			})
			goodM, nM := true, 0
			for _, r := range returnsOf(existsFn) {
				for _, lf := range phiLeaves(returnValues(r)[0]) {
					nM++
					if k, ok := lf.Val.(*ssa.Const); ok && k.Value != nil && k.Value.String() == "true" {
						continue
					}
					isCmp := false
					for _, mc := range msgCmps {
						if lf.Val == ssa.Value(mc) {
							isCmp = true // the answer is `Message != ""` itself
						}
					}
					if isCmp {
						continue
					}
					if lf.Phi != nil && lf.Pred != nil && len(noMsg) > 0 && (edgeGuarded(existsFn, lf.Pred, lf.Phi.Block(), noMsg) || guardedByEdges(existsFn, terminator(lf.Pred), noMsg)) {
						continue
					}
					if len(noMsg) > 0 && guardedByEdges(existsFn, r, noMsg) {
						continue
					}
					goodM = false
				}
			}
			c.Check("R7.2", "Error.Exists/true-for-every-message", existsFn.Pos(), goodM && nM > 0, "Exists() may answer false only when the message is empty too (an error object without a code is still an error)")
		}
	}
	for _, fn := range fns {
		for ord, call := range callsToFn(fn, do) {
			key := fmt.Sprintf("%s/do#%d", fnName(fn), ord+1)
			// ---- R7.1
			errV, _ := errResult(call)
			okErr := errV != nil
			detail := "error result unused"
			if errV != nil {
				isNil, nonNil := nilTestEdges(errV)
				okErr = len(nonNil) > 0 && len(isNil) > 0
				detail = "tested"
				for _, e := range nonNil {
					good, why := errorArmLeaves(fn, e, isNil, nhError)
					if !good {
						okErr, detail = false, why
					}
				}
			}
			c.Check("R7.1", key, call.Pos(), okErr, "transport/HTTP/decoding error of do: "+detail)

			// ---- response roots decoded by this call
			roots := respRootsOf(call)
			if len(roots) == 0 {
				c.Violation("R7.2", key+"/no-response-object", call.Pos(), "cannot identify the decoded response object(s) of this call")
				continue
			}
			for _, r := range roots {
				falseEdges, detail := existsFalseEdges(fn, r, existsFn, nhError)
				reads := resultReads(fn, r, call)
				if len(falseEdges) == 0 {
					c.Violation("R7.2", key+"/"+r.desc, call.Pos(), "Error.Exists() of this response is never tested: "+detail)
				} else {
					bad := ""
					for _, rd := range reads {
						if re, _ := reach(siteOf(call), isInstr(rd), newCuts().addEdges(falseEdges)); re {
							// a read of the element whose own Exists() was just tested false, in the same iteration
							own := false
							if fa, isFA := rd.(*ssa.FieldAddr); isFA {
								if ia, isIA := fa.X.(*ssa.IndexAddr); isIA {
									for _, g := range elemGuards[fn] {
										if (ia.X == g.slice || sameVar(ia.X, g.slice)) && ia.Index == g.index && guardedByEdges(fn, rd, g.edges) {
											own = true
										}
									}
								}
							}
							if own {
								continue
							}
							bad = w.Pos(instrPos(rd))
							break
						}
					}
					c.Check("R7.2", key+"/"+r.desc, call.Pos(), bad == "", fmt.Sprintf("%d result reads, each after Exists()==false of this response (%s); unguarded read at %s", len(reads), detail, bad))
				}
				// ---- R7.3 nullable result
				propC07Nullable(c, fn, r, call, key)
			}
		}
	}

	// ---- R7.4 ----------------------------------------------------------
	c.Rule("R7.4", "do decodes the body only on a 2xx status; the other arm returns an error; the decode error is tested", 3)
	{
		var decode *ssa.Call
		for _, ci := range callsIn(do) {
			if call, ok := ci.(*ssa.Call); ok && strings.HasSuffix(calleeName(call), ".Decoder).Decode") {
				decode = call
			}
		}
		ok2xx, not2xx := cmpEdges(do, func(b *ssa.BinOp) bool {
			if b.Op != token.EQL {
				return false
			}
			return isStatusClass(b)
		})
		ne2, eq2 := cmpEdges(do, func(b *ssa.BinOp) bool { return b.Op == token.NEQ && isStatusClass(b) })
		ok2xx = append(ok2xx, eq2...)
		not2xx = append(not2xx, ne2...)
		c.Check("R7.4", "do/decode-only-on-2xx", do.Pos(), decode != nil && guardedByEdges(do, decode, ok2xx), "json decode is reached only on the StatusCode/100 == 2 edge")
		okArm := len(not2xx) > 0
		for _, e := range not2xx {
			if g, _ := errorArmLeaves(do, e, ok2xx, nil); !g {
				okArm = false
			}
		}
		c.Check("R7.4", "do/non-2xx-is-error", do.Pos(), okArm, "the non-2xx arm returns a non-nil error")
		okDec := false
		if decode != nil {
			isNil, nonNil := nilTestEdges(decode)
			okDec = len(nonNil) > 0
			for _, e := range nonNil {
				if g, _ := errorArmLeaves(do, e, isNil, nil); !g {
					okDec = false
				}
			}
			// success return only after decode ok
			for _, r := range returnsOf(do) {
				if isNilConst(returnValues(r)[0]) && !guardedByEdges(do, r, isNil) {
					okDec = false
				}
			}
		}
		c.Check("R7.4", "do/decode-error-tested", do.Pos(), okDec, "an undecodable body is an error; `return nil` only after a successful decode")
	}

	// ---- R7.3 (lists) ---------------------------------------------------
	// A result that is a JSON list decodes `null` into a nil slice, which looks like "nothing to attach".
	// In the routines that attach receipts, logs and traces a null list is an error of its own: tested on
	// every path that goes on (every batch element), with the failing arm leaving the routine.
	for _, name := range []string{"(*Client).receipts", "(*Client).logs", "(*Client).traces"} {
		fn := w.Fn("jrpc2", name)
		lreg := NewRegion(fn)
		fields := map[*types.Var]bool{}
		lreg.AllInstrs(func(in ssa.Instruction) {
			v, ok := in.(ssa.Value)
			if !ok {
				return
			}
			f, _ := loadedField(v)
			if f == nil || f.Name() != "Result" || f.Pkg() == nil || f.Pkg() != fn.Pkg.Pkg {
				return
			}
			if _, isSl := f.Type().Underlying().(*types.Slice); isSl {
				fields[f] = true
			}
		})
		for _, f := range sortedVars(fields) {
			good, detail := false, "no test of "+f.Name()+" against nil (or emptiness) with an error arm"
			lreg.AllInstrs(func(in ssa.Instruction) {
				b, ok := in.(*ssa.BinOp)
				if !ok || good {
					return
				}
				var nullEdges []Edge
				t, fl := boolEdges(b)
				switch {
				case (b.Op == token.EQL || b.Op == token.NEQ) && isNilConst(b.Y) && isLoadOfField(stripConv(b.X), f):
					nullEdges = t
					if b.Op == token.NEQ {
						nullEdges = fl
					}
				default:
					// len(X.Result) == 0 (or < 1) with an error arm covers null as well
					arg, isLen := lenArg(b.X)
					n, isK := constInt(b.Y)
					if !isLen || !isK || !isLoadOfField(stripConv(arg), f) {
						return
					}
					switch {
					case b.Op == token.EQL && n == 0, b.Op == token.LSS && n == 1, b.Op == token.LEQ && n == 0:
						nullEdges = t
					case b.Op == token.NEQ && n == 0, b.Op == token.GTR && n == 0, b.Op == token.GEQ && n == 1:
						nullEdges = fl
					default:
						return
					}
				}
				if len(nullEdges) == 0 {
					return
				}
				g := b.Parent()
				for _, e := range nullEdges {
					var okEdges []Edge
					for _, s2 := range e.From.Succs {
						if s2 != e.To {
							okEdges = append(okEdges, Edge{e.From, s2})
						}
					}
					if arm, _ := errorArmLeaves(g, e, okEdges, nil); !arm {
						detail = "a null " + f.Name() + " list is passed over (the arm of the test does not leave with an error)"
						return
					}
				}
				// on every path that goes on
				every, inLoop := passesEveryCompletedIteration(b)
				if inLoop && !every {
					detail = "the test does not run for every element of the batch"
					return
				}
				if !inLoop {
					for _, r := range returnsOf(g) {
						vals := returnValues(r)
						if len(vals) > 0 && isNilConst(vals[len(vals)-1]) && !dominatesInstr(b, r) {
							detail = "a success return is reached without the test"
							return
						}
					}
				}
				good, detail = true, "a null list is an error"
			})
			c.Check("R7.3", fmt.Sprintf("%s/null-list-result-is-an-error:%s", fnName(fn), typeOfField(f)), fn.Pos(), good, detail)
		}
	}

	// ---- R7.5 ----------------------------------------------------------
	c.Rule("R7.5", "block-map look-ups test ok; out-of-range block numbers are rejected before data is attached", 5)
	propC07TraceReplyBlock(c)
	propC07BatchReplies(c)
	c.Rule("R7.11", "every reply is decoded into a value of its own (a reply decoded over the previous one keeps the members it does not mention: data of another block) – same rule as C11 R11.9", 1)
	checkDecodeTargetsFresh(c, "R7.11")
	for _, name := range []string{"(*Client).receipts", "(*Client).logs", "(*Client).traces"} {
		fn := w.Fn("jrpc2", name)
		n := 0
		bmReg := NewRegion(fn) // the look-up may live in a helper of the routine
		bmReg.AllInstrs(func(in ssa.Instruction) {
			lk, lkIndex, ok := blockLookupInstr(in)
			if !ok {
				return
			}
			fn := in.Parent()
			n++
			var okV, val ssa.Value
			for _, ref := range *lk.Referrers() {
				if e, ok := ref.(*ssa.Extract); ok {
					if e.Index == 1 {
						okV = e
					} else {
						val = e
					}
				}
			}
			good := okV != nil
			if okV != nil {
				t, f := boolEdges(okV)
				good = len(f) > 0
				for _, e := range f {
					if g, _ := errorArmLeaves(fn, e, t, nil); !g {
						good = false
					}
				}
				if val != nil {
					for _, ref := range *val.Referrers() {
						if _, dbg := ref.(*ssa.DebugRef); dbg {
							continue
						}
						if !guardedByEdges(fn, ref, t) {
							good = false
						}
					}
				}
				// in a helper: its error must be handed on by every caller up to the routine
				if ch := bmReg.chain(in); len(ch) > 1 {
					for _, at := range ch[:len(ch)-1] {
						if call, isCall := at.(*ssa.Call); !isCall || !callErrorArmReturns(call) {
							good = false
						}
					}
				}
			}
			c.Check("R7.5", fmt.Sprintf("%s/block-map-lookup#%d", fnName(bmReg.Root), n), lk.Pos(), good, "a block number the map does not contain is an error; the block is used only when found")
			// receipts and traces: the block is the one the response itself names, not the one at the
			// same position of the batch (a server may answer a batch in any order; found by a seeded
			// change that looked the block up by start+i).  For logs the grouping rule (R7.10) says the same.
			if name != "(*Client).logs" {
				own := false
				kv := stripNum(bmReg.Resolve(stripNum(lkIndex)))
				for i := 0; i < 4; i++ {
					if lf, _ := loadedField(kv); lf != nil && lf.Name() == "BlockNum" {
						own = true
						break
					}
					u, isU := kv.(*ssa.UnOp)
					if !isU || u.Op != token.MUL {
						break
					}
					al, isAl := u.X.(*ssa.Alloc)
					if !isAl {
						break
					}
					cv := cellValue(al)
					if cv == nil {
						break
					}
					kv = stripNum(bmReg.Resolve(stripNum(cv)))
				}
				c.Check("R7.5", fmt.Sprintf("%s/block-map-lookup#%d-by-reported-number", fnName(bmReg.Root), n), lk.Pos(), own, "the block data is attached to is looked up by the block number the response element reports")
			}
		})
		if n == 0 {
			c.Violation("R7.5", fnName(fn)+"/block-map-lookup", fn.Pos(), "no `b, ok := bm[n]` look-up found")
		}
	}
	propC07Ranges(c)

	// ---- R7.7 ----------------------------------------------------------
	c.Rule("R7.7", "header/block segments are returned only with validate()'s verdict (numbers, linkage) – same rule as C03 R3.4", 6)
	checkFetchersValidate(c, "R7.7")

	c.Rule("R7.8", "the segment cache stores only successful fetches and serves only the segment fetched for exactly this range", 5)
	checkCacheStoresOnlySuccess(c, "R7.8")
	checkCacheKeyIdentity(c, "R7.8")
	c.Rule("R7.10", "every log is attached to the block and transaction named by its own blockNumber / transactionIndex", 2)
	checkLogsGrouping(c, "R7.10")
	c.Rule("R7.9", "eth_getLogs spans the requested range and is batched with a header probe for its last block", 3)
	checkLogsProbe(c, "R7.9")

	// ---- R7.6 ----------------------------------------------------------
	c.Rule("R7.6", "no error produced by a call inside jrpc2 is dropped (exceptions: calls that cannot fail, listed with reasons)", 20)
	exceptions := map[string]string{
		"io.ReadAll":                         "body of an already failing (non-2xx) response, used only for the error text",
		"crypto/rand.Read":                   "request id entropy; crypto/rand.Read does not fail on supported platforms",
		"(*" + modPath + "/eth.Bytes).Write": "cannot fail (always returns nil)",
		"(*" + modPath + "/eth.Byte).Write":  "cannot fail (always returns nil)",
		"(*io.PipeWriter).Close":             "deferred close of the request pipe",
		"invoke io.ReadCloser.Close":         "deferred close of the response body",
		"fmt.Printf":                         "diagnostic output to stdout immediately before os.Exit",
	}
	used := map[string]bool{}
	n := 0
	for _, fn := range w.RepoFuncs() {
		top := fn
		for top.Parent() != nil {
			top = top.Parent()
		}
		if top.Pkg != jpkg || takesTestingTB(fn) {
			continue
		}
		ord := map[string]int{}
		for _, ci := range callsIn(fn) {
			sig := ci.Common().Signature()
			k := sig.Results().Len()
			if k == 0 || !isErrorType(sig.Results().At(k-1).Type()) {
				continue
			}
			name := calleeName(ci)
			ord[name]++
			n++
			dropped := false
			switch x := ci.(type) {
			case *ssa.Call:
				ev := extractOf(x, k-1)
				if ev == nil {
					dropped = true
				} else if refs := ev.Referrers(); refs == nil || len(nonDebug(*refs)) == 0 {
					dropped = true
				}
			default: // defer / go: result discarded
				dropped = true
			}
			key := fmt.Sprintf("%s/%s#%d", fnName(fn), short(name), ord[name])
			if !dropped {
				c.OK("R7.6", key, instrPos(ci), "error result is consumed")
				continue
			}
			if why, ok := exceptions[name]; ok {
				used[name] = true
				c.OK("R7.6", key, instrPos(ci), "exception: "+why)
				continue
			}
			c.Violation("R7.6", key, instrPos(ci), "the error returned by "+short(name)+" is dropped")
		}
	}
	c.Stats["error_returning_calls_in_jrpc2"] = n
	c.Stats["r76_exception_callees_used"] = len(used)
}

func nonDebug(refs []ssa.Instruction) []ssa.Instruction {
	var out []ssa.Instruction
	for _, r := range refs {
		if _, ok := r.(*ssa.DebugRef); !ok {
			out = append(out, r)
		}
	}
	return out
}

func isStatusClass(b *ssa.BinOp) bool {
	n, ok := constInt(b.Y)
	if !ok || n != 2 {
		return false
	}
	q, ok := b.X.(*ssa.BinOp)
	if !ok || q.Op != token.QUO {
		return false
	}
	d, ok := constInt(q.Y)
	if !ok || d != 100 {
		return false
	}
	f, _ := loadedField(q.X)
	return f != nil && f.Name() == "StatusCode"
}

// errorArmLeaves: from edge e (the failing arm) every path ends in a Return
// that carries a non-nil error (or, in a function without results, passes a
// call to NumHash.error) and never reaches the target of an ok edge.
func errorArmLeaves(fn *ssa.Function, e Edge, okEdges []Edge, recorder *ssa.Function) (bool, string) {
	okTargets := map[*ssa.BasicBlock]bool{}
	for _, oe := range okEdges {
		if oe.From == e.From {
			okTargets[oe.To] = true
		}
	}
	good, why := true, ""
	// what the failing edge itself tells: the tested value is non-nil there
	known := map[ssa.Value]bool{}
	if ifi, ok := terminator(e.From).(*ssa.If); ok && len(e.From.Succs) == 2 && e.From.Succs[0] != e.From.Succs[1] {
		fs := factSet{}
		if fs.assumeCond(ifi.Cond, e.From.Succs[0] == e.To) {
			for k := range fs {
				if k.k == fNonNil {
					known[k.v] = true
				}
			}
		}
	}
	visited := map[*ssa.BasicBlock]bool{}
	var walk func(b *ssa.BasicBlock, recorded bool)
	walk = func(b *ssa.BasicBlock, recorded bool) {
		if visited[b] || !good {
			return
		}
		visited[b] = true
		if okTargets[b] {
			good, why = false, "the failing arm falls through to the success path"
			return
		}
		for _, in := range b.Instrs {
			if call, ok := in.(*ssa.Call); ok && recorder != nil && staticCallee(call) == recorder {
				recorded = true
			}
			if r, ok := in.(*ssa.Return); ok {
				vals := returnValues(r)
				if len(vals) == 0 {
					if !recorded {
						good, why = false, "the failing arm returns without recording the error"
					}
					return
				}
				if !definitelyNonNilError(vals[len(vals)-1], known) {
					good, why = false, "the failing arm can return a nil error"
				}
				return
			}
			if _, ok := in.(*ssa.Panic); ok {
				return
			}
		}
		for _, s := range b.Succs {
			walk(s, recorded)
		}
	}
	walk(e.To, false)
	return good, why
}

// respRootsOf: the response objects a do call decodes into (its dest argument).
func respRootsOf(call *ssa.Call) []respRoot {
	dest := stripConv(call.Call.Args[3])
	fn := call.Parent()
	var out []respRoot
	// the response object handed in by the caller (a helper shared by two requests: latestHeader(…, hresp *headerResp))
	if p, isP := dest.(*ssa.Parameter); isP {
		if f := embedsRPCError(p.Type()); f != nil {
			return []respRoot{{val: p, errFld: f, desc: "scalar:" + shortType(p.Type())}}
		}
	}
	al, ok := dest.(*ssa.Alloc)
	if !ok {
		return nil
	}
	elemT := al.Type().Underlying().(*types.Pointer).Elem()
	if f := embedsRPCError(elemT); f != nil {
		// &hresp
		return []respRoot{{val: al, errFld: f, desc: "scalar:" + shortType(elemT)}}
	}
	if sl, ok := elemT.Underlying().(*types.Slice); ok {
		// &resps where resps is a slice variable: the cell holds a slice
		if f := embedsRPCError(sl.Elem()); f != nil {
			// the slice value: every load of the cell (single store: make)
			return []respRoot{{val: al, batch: true, errFld: f, desc: "batch:" + shortType(sl.Elem())}}
		}
		// heterogeneous []any{&headerResp{}, &logResp{}}: roots are the type assertions on its elements
		allInstrs(fn, func(in ssa.Instruction) {
			ta, ok := in.(*ssa.TypeAssert)
			if !ok {
				return
			}
			if f := embedsRPCError(ta.AssertedType); f != nil {
				if s, _, ok := elemOf(ta.X); ok {
					if u, ok := s.(*ssa.UnOp); ok && u.X == ssa.Value(al) {
						out = append(out, respRoot{val: ta, errFld: f, desc: "element:" + shortType(ta.AssertedType)})
					}
				}
			}
		})
	}
	return out
}

func shortType(t types.Type) string {
	s := t.String()
	s = strings.ReplaceAll(s, modPath+"/", "")
	return strings.TrimPrefix(s, "*")
}

// existsFalseEdges: edges after which Error.Exists() of the response is known false.
// For a batch: the exit edge of a loop over the whole slice whose body tests Exists()
// of the indexed element and leaves on true.
// elemGuards: for batch responses, the Exists()==false edges of ONE element (slice, index): a read of that
// very element behind them is after its own test, also while the loop over the batch is still running
type elemGuard struct {
	slice, index ssa.Value
	edges        []Edge
}

var elemGuards = map[*ssa.Function][]elemGuard{}

func existsFalseEdges(fn *ssa.Function, r respRoot, existsFn, recorder *ssa.Function) ([]Edge, string) {
	var out []Edge
	detail := "no Exists() call on this response"
	for _, call := range callsToFn(fn, existsFn) {
		recv := call.Call.Args[0] // value of type Error: load of &X.Error
		f, base := loadedField(recv)
		if f == nil {
			// the error member handed out by an accessor passed in as a function value
			// (`rerr := rpcError(&resps[i])` with rpcError = func(r *blockResp) Error { return r.Error })
			rv := stripConv(recv)
			if u, ok := rv.(*ssa.UnOp); ok && u.Op == token.MUL {
				if al, ok := u.X.(*ssa.Alloc); ok {
					if cv := cellValue(al); cv != nil {
						rv = stripConv(cv)
					}
				}
			}
			if ac, ok := rv.(*ssa.Call); ok && staticCallee(ac) == nil && !ac.Call.IsInvoke() && len(ac.Call.Args) == 1 && currentWorld != nil {
				cals := NewResolver(currentWorld).Callees(ac)
				all := len(cals) > 0
				for _, cf := range cals {
					if cf.Blocks == nil || len(cf.Params) != 1 {
						all = false
						continue
					}
					for _, ret := range returnsOf(cf) {
						rf, rbase := loadedField(stripConv(returnValues(ret)[0]))
						if rf != r.errFld || stripConv(rbase) != ssa.Value(cf.Params[0]) {
							all = false
						}
					}
				}
				if all {
					f, base = r.errFld, ac.Call.Args[0]
				}
			}
		}
		if f != r.errFld {
			continue
		}
		if !r.owns(base) {
			// pointer root: base is the pointer value itself
			if stripConv(base) != r.val {
				continue
			}
		}
		t, fl := boolEdges(call)
		armOK := len(t) > 0
		for _, e := range t {
			if g, _ := errorArmLeaves(fn, e, fl, recorder); !g {
				armOK = false
			}
		}
		if !armOK {
			detail = "Exists()==true does not leave with an error"
			continue
		}
		if !r.batch {
			out = append(out, fl...)
			detail = "Exists() tested"
			continue
		}
		// batch: find the loop header: IndexAddr index induction bounded by len(slice)
		ia, ok := base.(*ssa.IndexAddr)
		if !ok {
			continue
		}
		elemGuards[fn] = append(elemGuards[fn], elemGuard{ia.X, ia.Index, fl})
		if ev, found := passesEveryCompletedIteration(call); found && !ev {
			detail = "Exists() is not evaluated in every iteration of the loop over the batch"
			continue
		}
		hdrExit := loopExitEdges(fn, ia.Index, r.val)
		if len(hdrExit) == 0 {
			detail = "Exists() is tested on one element only, not in a loop over the whole slice"
			continue
		}
		out = append(out, hdrExit...)
		detail = "loop over every element completed"
	}
	// batch, written with the standard library: slices.IndexFunc / ContainsFunc over the
	// whole response slice with a predicate that is the element's Error.Exists();
	// "found" must leave with an error, "not found" is the edge that admits the reads
	if r.batch {
		for _, ci := range callsIn(fn) {
			call, ok := ci.(*ssa.Call)
			if !ok || len(call.Call.Args) != 2 {
				continue
			}
			name := calleeName(call)
			if name != "slices.IndexFunc" && name != "slices.ContainsFunc" {
				continue
			}
			arg := stripConv(call.Call.Args[0])
			if arg != stripConv(r.val) && !sameVar(arg, r.val) {
				continue
			}
			var pred *ssa.Function
			switch p := stripConv(call.Call.Args[1]).(type) {
			case *ssa.MakeClosure:
				pred = p.Fn.(*ssa.Function)
			case *ssa.Function:
				pred = p
			}
			if pred == nil || len(pred.Params) != 1 {
				continue
			}
			// the predicate answers true whenever the element's Exists() does: its leaves are that call, the
			// constant true, or whatever is evaluated only after Exists() said false (`r.Error.Exists() || r.Block == nil`)
			isExists := true
			nRet := 0
			var existsCalls []*ssa.Call
			for _, ec := range callsToFn(pred, existsFn) {
				f, base := loadedField(ec.Call.Args[0])
				root := stripConv(base)
				if al, ok := root.(*ssa.Alloc); ok {
					if cv := cellValue(al); cv != nil {
						root = stripConv(cv)
					}
				}
				if f == r.errFld && root == ssa.Value(pred.Params[0]) {
					existsCalls = append(existsCalls, ec)
				}
			}
			var existsFalse []Edge
			for _, ec := range existsCalls {
				_, fe := boolEdges(ec)
				existsFalse = append(existsFalse, fe...)
			}
			for _, ret := range returnsOf(pred) {
				for _, lf := range phiLeaves(returnValues(ret)[0]) {
					nRet++
					isCall := false
					for _, ec := range existsCalls {
						if lf.Val == ssa.Value(ec) {
							isCall = true
						}
					}
					if isCall {
						continue
					}
					if k, isK := lf.Val.(*ssa.Const); isK && k.Value != nil && k.Value.String() == "true" {
						continue
					}
					if len(existsFalse) > 0 && lf.Pred != nil && lf.Phi != nil && edgeGuarded(pred, lf.Pred, lf.Phi.Block(), existsFalse) {
						continue
					}
					if len(existsFalse) > 0 && guardedByEdges(pred, ret, existsFalse) {
						continue
					}
					isExists = false
				}
			}
			if len(existsCalls) == 0 {
				isExists = false
			}
			if !isExists || nRet == 0 {
				continue
			}
			var found, none []Edge
			if name == "slices.ContainsFunc" {
				found, none = boolEdges(call)
			} else {
				ge, lt := cmpEdges(fn, func(b *ssa.BinOp) bool {
					k, ok := constInt(b.Y)
					return b.X == ssa.Value(call) && ok && ((b.Op == token.GEQ && k == 0) || (b.Op == token.GTR && k == -1) || (b.Op == token.NEQ && k == -1))
				})
				lt2, ge2 := cmpEdges(fn, func(b *ssa.BinOp) bool {
					k, ok := constInt(b.Y)
					return b.X == ssa.Value(call) && ok && ((b.Op == token.LSS && k == 0) || (b.Op == token.EQL && k == -1) || (b.Op == token.LEQ && k == -1))
				})
				found, none = append(ge, ge2...), append(lt, lt2...)
			}
			armOK := len(found) > 0
			for _, e := range found {
				if g, _ := errorArmLeaves(fn, e, none, recorder); !g {
					armOK = false
				}
			}
			if !armOK {
				detail = "an element with Exists()==true does not leave with an error"
				continue
			}
			out = append(out, none...)
			detail = "no element of the whole slice reports an error (library search)"
		}
	}
	// the test delegated to a helper that reports the response's error member as a Go error
	// (`if err := hresp.rpcError(tag); err != nil`, `batchError(tag, resps)`): a nil result must
	// imply Exists()==false (for a slice: of every element)
	isRoot := func(v ssa.Value) bool {
		return v == r.val || sameVar(v, r.val) || (!r.batch && r.owns(v))
	}
	for _, ci := range callsIn(fn) {
		call, ok := ci.(*ssa.Call)
		if !ok {
			continue
		}
		h := staticCallee(call)
		if h == nil || h == existsFn || h.Blocks == nil || !isRepoFunc(h) {
			continue
		}
		e, has := errResult(call)
		if !has || e == nil {
			continue
		}
		for k, a := range call.Call.Args {
			hit, idx := derivesFromResp(a, isRoot)
			if !hit || !nilMeansNoRPCError(h, k, existsFn, 0) {
				continue
			}
			isNil, nonNil := nilTestEdges(e)
			armOK := len(nonNil) > 0
			for _, ed := range nonNil {
				if g, _ := errorArmLeaves(fn, ed, isNil, recorder); !g {
					armOK = false
				}
			}
			if !armOK {
				detail = "the error reported by " + fnName(h) + " does not leave with an error"
				continue
			}
			if r.batch && idx != nil {
				hdrExit := loopExitEdges(fn, idx, r.val)
				if len(hdrExit) == 0 {
					detail = "the error member is tested on one element only, not in a loop over the whole slice"
					continue
				}
				out = append(out, hdrExit...)
				detail = "loop over every element completed (" + fnName(h) + ")"
				continue
			}
			out = append(out, isNil...)
			detail = "tested through " + fnName(h)
		}
	}
	return out, detail
}

// derivesFromResp: v is the response (isRoot), its embedded Error member, or –
// with the index returned – an element of the response slice / that element's Error member.
func derivesFromResp(v ssa.Value, isRoot func(ssa.Value) bool) (bool, ssa.Value) {
	var idx ssa.Value
	for i := 0; i < 10; i++ {
		v = stripConv(v)
		if isRoot(v) {
			return true, idx
		}
		switch x := v.(type) {
		case *ssa.UnOp:
			if x.Op != token.MUL {
				return false, nil
			}
			v = x.X
		case *ssa.FieldAddr:
			f, _ := fieldOf(x)
			if f == nil || !f.Embedded() || !repoNamedIs(f.Type(), "jrpc2", "Error") {
				return false, nil
			}
			v = x.X
		case *ssa.Field:
			f, _ := fieldOf(x)
			if f == nil || !f.Embedded() || !repoNamedIs(f.Type(), "jrpc2", "Error") {
				return false, nil
			}
			v = x.X
		case *ssa.IndexAddr:
			idx = x.Index
			v = x.X
		case *ssa.Alloc:
			cv := cellValue(x)
			if cv == nil {
				return false, nil
			}
			v = cv
		default:
			return false, nil
		}
	}
	return false, nil
}

// nilMeansNoRPCError: if h returns a nil error, Error.Exists() of the response
// handed over as argument k was false (of every element, if it is a slice).
func nilMeansNoRPCError(h *ssa.Function, k int, existsFn *ssa.Function, depth int) bool {
	if depth > 3 || k >= len(h.Params) {
		return false
	}
	res := h.Signature.Results()
	if res.Len() == 0 || !isErrorType(res.At(res.Len()-1).Type()) {
		return false
	}
	p := h.Params[k]
	_, isSlice := p.Type().Underlying().(*types.Slice)
	isRoot := func(v ssa.Value) bool { return v == ssa.Value(p) }
	var admit []Edge
	for _, ci := range callsIn(h) {
		call, ok := ci.(*ssa.Call)
		if !ok {
			continue
		}
		cal := staticCallee(call)
		if cal == nil {
			continue
		}
		var cand []Edge
		var idx ssa.Value
		switch {
		case cal == existsFn:
			hit, ix := derivesFromResp(call.Call.Args[0], isRoot)
			if !hit {
				continue
			}
			_, f := boolEdges(call)
			cand, idx = f, ix
		case cal.Blocks != nil && isRepoFunc(cal):
			e, has := errResult(call)
			if !has || e == nil {
				continue
			}
			for j, a := range call.Call.Args {
				hit, ix := derivesFromResp(a, isRoot)
				if hit && nilMeansNoRPCError(cal, j, existsFn, depth+1) {
					// the result may be returned as it is (`return f(x)`) or tested
					isNil, _ := nilTestEdges(e)
					cand, idx = isNil, ix
					if len(isNil) == 0 {
						// returned untested: every return of h that hands this call's error on is fine;
						// model it as: the call dominates those returns and is their error value
						passThrough := true
						for _, r := range returnsOf(h) {
							vals := returnValues(r)
							if vals[len(vals)-1] != e && !definitelyNonNilError(vals[len(vals)-1], nil) {
								passThrough = false
							}
						}
						if passThrough && !isSlice {
							return true
						}
					}
				}
			}
		}
		if len(cand) == 0 {
			continue
		}
		if isSlice {
			if idx == nil {
				admit = append(admit, cand...) // the whole slice handed on
				continue
			}
			admit = append(admit, loopExitEdges(h, idx, p)...)
			continue
		}
		admit = append(admit, cand...)
	}
	if len(admit) == 0 {
		return false
	}
	var pf *pathFacts
	for _, r := range returnsOf(h) {
		vals := returnValues(r)
		last := vals[len(vals)-1]
		if definitelyNonNilError(last, nil) {
			continue
		}
		if pf == nil {
			pf = newPathFacts(h)
		}
		if st := pf.At(r); st == nil || st.knownNonNil(last) {
			continue
		}
		if !guardedByEdges(h, r, admit) {
			return false
		}
	}
	return true
}

// loopExitEdges: idx is the induction variable of a loop `for idx < len(s)`;
// returns the false edges of that comparison.
func loopExitEdges(fn *ssa.Function, idx ssa.Value, s ssa.Value) []Edge {
	var out []Edge
	allInstrs(fn, func(in ssa.Instruction) {
		b, ok := in.(*ssa.BinOp)
		if !ok || b.Op != token.LSS || b.X != idx {
			return
		}
		if !isInduction(idx) {
			return
		}
		okLen := isLenOf(b.Y, s)
		if !okLen {
			// len hoisted: t = len(s) computed before the loop
			if arg, ok := lenArg(b.Y); ok && sameVar(arg, s) {
				okLen = true
			}
		}
		if !okLen {
			return
		}
		_, f := boolEdges(b)
		out = append(out, f...)
	})
	return out
}

// resultReads: instructions that read the result part of the response after
// the call: field accesses other than the embedded Error, and (for batches
// whose elements are pre-bound to the returned blocks) the success returns.
func resultReads(fn *ssa.Function, r respRoot, call *ssa.Call) []ssa.Instruction {
	var out []ssa.Instruction
	allInstrs(fn, func(in ssa.Instruction) {
		switch x := in.(type) {
		case *ssa.FieldAddr:
			f, base := fieldOf(x)
			if f == r.errFld {
				return
			}
			if onlyNilTested(x) {
				return // `resps[i].Block == nil`: looks at no result data
			}
			if r.owns(base) || stripConv(base) == r.val {
				if re, _ := reach(siteOf(call), isInstr(in), nil); re {
					out = append(out, in)
				}
			}
		case *ssa.Field:
			f, base := fieldOf(x)
			if f == r.errFld {
				return
			}
			if r.owns(base) {
				if re, _ := reach(siteOf(call), isInstr(in), nil); re {
					out = append(out, in)
				}
			}
		case *ssa.Return:
			vals := returnValues(x)
			if len(vals) == 2 && !isNilConst(vals[0]) {
				if sl, ok := vals[0].Type().Underlying().(*types.Slice); ok && repoNamedIs(sl.Elem(), "eth", "Block") {
					out = append(out, in)
				}
			}
		}
	})
	return out
}

// propC07Nullable: R7.3 for responses whose result is an embedded pointer.
func propC07Nullable(c *Ctx, fn *ssa.Function, r respRoot, call *ssa.Call, key string) {
	t := r.val.Type()
	if p, ok := t.Underlying().(*types.Pointer); ok {
		t = p.Elem()
	}
	if r.batch {
		if sl, ok := t.Underlying().(*types.Slice); ok {
			t = sl.Elem()
		}
	}
	if p, ok := t.Underlying().(*types.Pointer); ok {
		t = p.Elem()
	}
	st, ok := t.Underlying().(*types.Struct)
	if !ok {
		return
	}
	for i := 0; i < st.NumFields(); i++ {
		pf := st.Field(i)
		if _, isPtr := pf.Type().Underlying().(*types.Pointer); !isPtr || !pf.Embedded() {
			continue
		}
		// loads of R.<pf> after the call
		var loads []ssa.Value
		allInstrs(fn, func(in ssa.Instruction) {
			switch u := in.(type) {
			case *ssa.UnOp:
				if u.Op != token.MUL {
					return
				}
				f, base := fieldOf(u.X)
				if f != pf || !(r.owns(base) || stripConv(base) == r.val) {
					return
				}
				if re, _ := reach(siteOf(call), isInstr(in), nil); re {
					loads = append(loads, u)
				}
			case *ssa.Field:
				f, base := fieldOf(u)
				if f != pf || !r.owns(base) {
					return
				}
				if re, _ := reach(siteOf(call), isInstr(in), nil); re {
					loads = append(loads, u)
				}
			}
		})
		var nonNil []Edge
		var derefs []ssa.Instruction
		for _, ld := range loads {
			_, nn := nilTestEdges(ld)
			nonNil = append(nonNil, nn...)
			for _, ref := range *ld.Referrers() {
				switch x := ref.(type) {
				case *ssa.FieldAddr:
					if x.X == ld {
						derefs = append(derefs, x)
					}
				case *ssa.UnOp:
					if x.X == ld && x.Op == token.MUL {
						derefs = append(derefs, x)
					}
				case ssa.CallInstruction:
					// method call through the pointer
					if len(x.Common().Args) > 0 && x.Common().Args[0] == ld && !x.Common().IsInvoke() {
						derefs = append(derefs, x)
					}
				}
			}
		}
		if !r.batch {
			var isNilE []Edge
			for _, ld := range loads {
				n, _ := nilTestEdges(ld)
				isNilE = append(isNilE, n...)
			}
			armOK := len(isNilE) > 0
			for _, e := range isNilE {
				if g, _ := errorArmLeaves(fn, e, nonNil, c.W.Fn("jrpc2", "(*NumHash).error")); !g {
					armOK = false
				}
			}
			c.Check("R7.3", key+"/"+r.desc+"."+pf.Name()+"/null-is-error", call.Pos(), armOK, "a `\"result\": null` reply for this request is turned into an error")
		}
		if r.batch {
			// F-26: a pre-bound result pointer that a `"result": null` sets to nil: every element is tested and a
			// nil one is an error (block 0 used to pass as an empty block)
			var isNilE []Edge
			every := true
			nTests := 0
			for _, ld := range loads {
				n, _ := nilTestEdges(ld)
				if len(n) == 0 {
					continue
				}
				nTests++
				isNilE = append(isNilE, n...)
				for _, ref := range *ld.Referrers() {
					if b, isB := ref.(*ssa.BinOp); isB && isNilConst(b.Y) {
						if ev, found := passesEveryCompletedIteration(b); !found || !ev {
							every = false
						}
					}
				}
			}
			armOK := len(isNilE) > 0 && every
			for _, e := range isNilE {
				if g, _ := errorArmLeaves(fn, e, nonNil, nil); !g {
					armOK = false
				}
			}
			if len(isNilE) == 0 && literalNilTests(fn, pf) {
				c.OK("R7.3", key+"/"+r.desc+"."+pf.Name()+"/null-is-error", call.Pos(), "the nil test of the pre-bound result pointer is made by a function literal handed to a search or a helper: present, which elements it covers and what follows is not decided")
				continue
			}
			c.Check("R7.3", key+"/"+r.desc+"."+pf.Name()+"/null-is-error", call.Pos(), armOK, "a `\"result\": null` element of the batch reply (it sets the pre-bound pointer to nil) is turned into an error, for every element")
		}
		if len(derefs) == 0 {
			continue // pointer never dereferenced here (pre-bound batch elements)
		}
		bad := ""
		for _, d := range derefs {
			if re, _ := reach(siteOf(call), isInstr(d), newCuts().addEdges(nonNil)); re {
				bad = c.W.Pos(instrPos(d))
				break
			}
		}
		c.Check("R7.3", key+"/"+r.desc+"."+pf.Name(), call.Pos(), bad == "" && len(nonNil) > 0,
			fmt.Sprintf("result pointer %s is dereferenced %d times; a `\"result\": null` reply must be caught by a nil test first; unguarded dereference at %s", pf.Name(), len(derefs), bad))
	}
}

// propC07Ranges: numeric range tests before data is attached.
func propC07Ranges(c *Ctx) {
	w := c.W
	for _, spec := range []struct {
		fn      string
		attach  func(in ssa.Instruction) bool
		attDesc string
	}{
		{"(*Client).logs", func(in ssa.Instruction) bool { _, ok := in.(*ssa.MapUpdate); return ok }, "insertion into logsByTx"},
		{"(*Client).receipts", func(in ssa.Instruction) bool {
			_, _, ok := blockLookupInstr(in)
			return ok
		}, "block look-up"},
	} {
		fn := w.Fn("jrpc2", spec.fn)
		pStart, pLimit, baseStack := requestedRange(w, fn)
		reg := NewRegion(fn) // the test and the attach step may live in a helper of the routine (groupLogs)
		// the range carried as a small value with accessors (want := span{start, limit}; want.first(), want.end()):
		// seen through the accessors and the literal (unfold.go)
		deep := deepUnfold
		isC := func(c cval, p *ssa.Parameter) bool {
			if c.top() && stripNum(reg.Resolve(stripNum(c.v))) == ssa.Value(p) {
				return true
			}
			u := deep(c)
			return u.top() && stripNum(reg.Resolve(u.v)) == ssa.Value(p)
		}
		isUpperC := func(c cval) bool {
			u := c
			b, ok := stripNum(u.v).(*ssa.BinOp)
			if !ok {
				u = deep(c)
				b, ok = u.v.(*ssa.BinOp)
			}
			return ok && b.Op == token.ADD && ((isC(u.with(b.X), pStart) && isC(u.with(b.Y), pLimit)) || (isC(u.with(b.Y), pStart) && isC(u.with(b.X), pLimit)))
		}
		is := func(v ssa.Value, p *ssa.Parameter) bool { return isC(cval{v: v, stack: baseStack}, p) }
		isUpper := func(v ssa.Value) bool { return isUpperC(cval{v: v, stack: baseStack}) }
		// rangeHelper: call is `contains(n)` of such a value: true only when start <= n and n < start+limit
		rangeHelper := func(call *ssa.Call, isNum func(ssa.Value) bool) bool {
			h := staticCallee(call)
			if h == nil || h.Blocks == nil || !isRepoFunc(h) || !isBoolType(call.Type()) {
				return false
			}
			ni := -1
			for i, a := range call.Call.Args {
				if isNum(a) {
					ni = i
				}
			}
			if ni < 0 || ni >= len(h.Params) {
				return false
			}
			np := h.Params[ni]
			st := append(append([]*ssa.Call{}, baseStack...), call)
			isN := func(v ssa.Value) bool { return stripNum(v) == ssa.Value(np) }
			var lo, hi []Edge
			var loCmp, hiCmp []ssa.Value
			allInstrs(h, func(in ssa.Instruction) {
				b, ok := in.(*ssa.BinOp)
				if !ok || !isN(b.X) {
					return
				}
				t, f := boolEdges(b)
				switch {
				case b.Op == token.GEQ && isC(cval{b.Y, st}, pStart):
					lo = append(lo, t...)
					loCmp = append(loCmp, b)
				case b.Op == token.LSS && isC(cval{b.Y, st}, pStart):
					lo = append(lo, f...)
				case b.Op == token.LSS && isUpperC(cval{b.Y, st}):
					hi = append(hi, t...)
					hiCmp = append(hiCmp, b)
				case b.Op == token.GEQ && isUpperC(cval{b.Y, st}):
					hi = append(hi, f...)
				}
			})
			if len(lo)+len(loCmp) == 0 || len(hi)+len(hiCmp) == 0 {
				return false
			}
			for _, r := range returnsOf(h) {
				for _, lf := range phiLeaves(returnValues(r)[0]) {
					if k, isK := lf.Val.(*ssa.Const); isK && k.Value != nil && k.Value.String() == "false" {
						continue
					}
					under := func(edges []Edge, cmps []ssa.Value) bool {
						for _, cmpV := range cmps {
							if lf.Val == cmpV {
								return true // the answer is this very comparison
							}
						}
						if lf.Pred != nil && lf.Phi != nil {
							if edgeGuarded(h, lf.Pred, lf.Phi.Block(), edges) || (len(edges) > 0 && guardedByEdges(h, terminator(lf.Pred), edges)) {
								return true
							}
						}
						return len(edges) > 0 && guardedByEdges(h, r, edges)
					}
					if !under(lo, loCmp) || !under(hi, hiCmp) {
						return false
					}
				}
			}
			return true
		}
		// blockNum values: conversions of a BlockNum field
		isBlockNum := func(v ssa.Value) bool {
			f, _ := loadedField(stripNum(v))
			return f != nil && f.Name() == "BlockNum"
		}
		n := 0
		defer func(fn *ssa.Function, desc string) {
			if n == 0 {
				c.Violation("R7.5", fnName(fn)+"/range-test-before-attach", fn.Pos(), "no "+desc+" site found: the routine's shape changed")
			}
		}(fn, spec.attDesc)
		reg.AllInstrs(func(in ssa.Instruction) {
			if !spec.attach(in) {
				return
			}
			g := in.Parent()
			gp := g.Pkg
			if gp == nil && g.Origin() != nil {
				gp = g.Origin().Pkg // an instance of a generic helper of the package (groupByTx[logResult])
			}
			if gp != fn.Pkg {
				return
			}
			// the tests may stand in the function of the attach step or in front of the call that leads to it
			var lowOK, highOK []Edge
			for _, tf := range reg.Funcs() {
				_, lo := cmpEdges(tf, func(b *ssa.BinOp) bool { return b.Op == token.LSS && isBlockNum(b.X) && is(b.Y, pStart) })
				_, hi := cmpEdges(tf, func(b *ssa.BinOp) bool {
					return (b.Op == token.GEQ || b.Op == token.GTR) && isBlockNum(b.X) && isUpper(b.Y)
				})
				lowOK, highOK = append(lowOK, lo...), append(highOK, hi...)
				for _, ci := range callsIn(tf) {
					if call, isCall := ci.(*ssa.Call); isCall && rangeHelper(call, isBlockNum) {
						t, _ := boolEdges(call)
						lowOK, highOK = append(lowOK, t...), append(highOK, t...)
					}
				}
			}
			n++
			ok := len(lowOK) > 0 && len(highOK) > 0 && reg.Guarded(in, lowOK) && reg.Guarded(in, highOK)
			if !ok {
				// two passes over the same list: a first loop tests every element and returns on the first one out
				// of range; the attach step runs in a second loop over that list after the first has finished
				// (the attach step may live in a helper called after the first loop: it is then seen at that call)
				origIn := in
				for _, lifted := range reg.chain(origIn) {
					in, g := lifted, lifted.Parent()
					var los, his []*ssa.BinOp
					allInstrs(g, func(x ssa.Instruction) {
						b, isB := x.(*ssa.BinOp)
						if !isB || !isBlockNum(b.X) {
							return
						}
						if b.Op == token.LSS && is(b.Y, pStart) {
							los = append(los, b)
						}
						if (b.Op == token.GEQ || b.Op == token.GTR) && isUpper(b.Y) {
							his = append(his, b)
						}
					})
					listOf := func(v ssa.Value) ssa.Value {
						root, _ := fieldChain(stripNum(v))
						if s, idx, isE := elemOf(root); isE && isInduction(idx) {
							return stripConv(s)
						}
						return nil
					}
					passOK := func(b *ssa.BinOp) (ssa.Value, bool) {
						every, found := passesEveryCompletedIteration(b)
						if !found || !every {
							return nil, false
						}
						// out of range leaves the function: it never comes back to this test
						t, _ := boolEdges(b)
						for _, e := range t {
							if again, _ := reach(Site{e.To, -1}, isInstr(b), nil); again {
								return nil, false
							}
						}
						// the attach step comes after the loop and is not part of it
						if back, _ := reach(siteOf(in), isInstr(b), nil); back {
							return nil, false
						}
						if fwd, _ := reach(siteOf(b), isInstr(in), nil); !fwd || !b.Block().Dominates(in.Block()) && !loopHeaderDominates(b, in) {
							return nil, false
						}
						return listOf(b.X), len(t) > 0
					}
					for _, lo := range los {
						for _, hi := range his {
							l1, ok1 := passOK(lo)
							l2, ok2 := passOK(hi)
							if !ok1 || !ok2 || l1 == nil || l1 != l2 {
								continue
							}
							cols := loopCollections(in)
							for _, col := range loopCollections(origIn) {
								cols = append(cols, reg.Resolve(stripConv(col)))
							}
							for _, col := range cols {
								if stripConv(col) == l1 || sameVar(col, l1) {
									ok = true
								}
								if arg, isLen := lenArg(col); isLen && (stripConv(arg) == l1 || sameVar(arg, l1)) {
									ok = true
								}
							}
						}
					}
				}
			}
			if !ok {
				// … or the first pass is a search (slices.IndexFunc(list, outOfRange) >= 0 → error): the attach step
				// is reached only when nothing was found, and the predicate is false only for numbers in range
				for _, sf := range elementSearches(g) {
					if debugOn() {
						fmt.Printf("DEBUG search %s none=%d some=%d guarded=%v\n", sf.call, len(sf.none), len(sf.some), guardedByEdges(g, in, sf.none))
					}
					if len(sf.none) == 0 || !guardedByEdges(g, in, sf.none) {
						continue
					}
					pred := sf.pred
					isElemNum := func(v ssa.Value) bool {
						f, base := loadedField(stripNum(v))
						if f == nil || f.Name() != "BlockNum" {
							if fv, isF := stripNum(v).(*ssa.Field); isF {
								f, base = fieldOf(fv)
							}
						}
						return f != nil && f.Name() == "BlockNum" && isParamOrCopy(base, pred, 0)
					}
					_, loOK := cmpEdges(pred, func(b *ssa.BinOp) bool { return b.Op == token.LSS && isElemNum(b.X) && is(b.Y, pStart) })
					_, hiOK := cmpEdges(pred, func(b *ssa.BinOp) bool {
						return (b.Op == token.GEQ || b.Op == token.GTR) && isElemNum(b.X) && isUpper(b.Y)
					})
					isLoCmp := func(v ssa.Value) bool {
						b, isB := v.(*ssa.BinOp)
						return isB && b.Op == token.LSS && isElemNum(b.X) && is(b.Y, pStart)
					}
					isHiCmp := func(v ssa.Value) bool {
						b, isB := v.(*ssa.BinOp)
						return isB && b.Op == token.GEQ && isElemNum(b.X) && isUpper(b.Y)
					}
					predOK := true
					for _, r := range returnsOf(pred) {
						for _, lf := range phiLeaves(returnValues(r)[0]) {
							if k, isK := lf.Val.(*ssa.Const); isK && k.Value != nil && k.Value.String() == "true" {
								continue // reports "out of range": stops the routine
							}
							behind := func(edges []Edge) bool {
								if len(edges) == 0 {
									return false
								}
								if lf.Pred != nil && lf.Phi != nil && edgeGuarded(pred, lf.Pred, lf.Phi.Block(), edges) {
									return true
								}
								return guardedByEdges(pred, r, edges)
							}
							// a leaf that can be false: then the number is known to be in range
							if !(isLoCmp(lf.Val) || behind(loOK)) || !(isHiCmp(lf.Val) || behind(hiOK)) {
								predOK = false
							}
						}
					}
					if debugOn() {
						fmt.Printf("DEBUG search predOK=%v loOK=%d hiOK=%d cols=%v list=%v\n", predOK, len(loOK), len(hiOK), loopCollections(in), sf.list)
					}
					if !predOK {
						continue
					}
					for _, col := range loopCollections(in) {
						if stripConv(col) == stripConv(sf.list) || sameVar(col, sf.list) {
							ok = true
						}
					}
				}
			}
			c.Check("R7.5", fmt.Sprintf("%s/range-test-before-attach#%d", fnName(fn), n), instrPos(in), ok, spec.attDesc+" happens only for block numbers tested against [start, start+limit]")
		})
	}
}

// propC07TraceReplyBlock: trace_block is asked block by block; the reply's traces must be the asked
// block's (F-22: a reply for another block of the range was attached where it said and the asked block
// came back without traces).  Every element of the reply is compared with start+i, a mismatch is an
// error, and the comparison comes before the block look-up.
func propC07TraceReplyBlock(c *Ctx) {
	w := c.W
	fn := w.Fn("jrpc2", "(*Client).traces")
	pStart, _ := rangeParams(fn)
	reg := NewRegion(fn)
	aff := &affEnv{reg: reg}
	isAsked := func(v ssa.Value) bool {
		// start + <request counter>
		l := aff.Of(stripNum(v))
		if pStart == nil || l.c != 0 {
			return false
		}
		nStart, nCount := 0, 0
		for a, k := range l.t {
			if k == 0 {
				continue
			}
			av := aff.vals[a]
			switch {
			case k == 1 && av == ssa.Value(pStart):
				nStart++
			case k == 1 && av != nil && (isInduction(stripNum(av)) || capturedCounter(av)):
				nCount++
			default:
				return false
			}
		}
		return nStart == 1 && nCount == 1
	}
	isReplyNum := func(v ssa.Value) bool {
		f, base := loadedField(stripNum(v))
		if f == nil || f.Name() != "BlockNum" {
			return false
		}
		root, _ := fieldChain(base)
		if s, _, ok := elemOf(root); ok {
			lf, _ := loadedField(stripConv(s))
			return lf != nil && lf.Name() == "Result"
		}
		s, _, ok := elemOf(base)
		if !ok {
			return false
		}
		lf, _ := loadedField(stripConv(s))
		return lf != nil && lf.Name() == "Result"
	}
	var lookup ssa.Instruction
	reg.AllInstrs(func(in ssa.Instruction) {
		if _, _, ok := blockLookupInstr(in); ok && lookup == nil {
			lookup = in
		}
	})
	good, detail := false, "no comparison of the reply's block number with the asked block (start+i)"
	reg.AllInstrs(func(in ssa.Instruction) {
		b, ok := in.(*ssa.BinOp)
		if !ok || good || (b.Op != token.NEQ && b.Op != token.EQL) {
			return
		}
		if !((isReplyNum(b.X) && isAsked(b.Y)) || (isReplyNum(b.Y) && isAsked(b.X))) {
			return
		}
		t, fl := boolEdges(b)
		ne := t
		if b.Op == token.EQL {
			ne = fl
		}
		g := b.Parent()
		for _, e := range ne {
			var okEdges []Edge
			for _, s2 := range e.From.Succs {
				if s2 != e.To {
					okEdges = append(okEdges, Edge{e.From, s2})
				}
			}
			if arm, _ := errorArmLeaves(g, e, okEdges, nil); !arm {
				detail = "a reply for another block is not an error"
				return
			}
		}
		// every element of the reply, or at least the one the block is looked up by
		elemIdxInduction := false
		for _, side := range []ssa.Value{b.X, b.Y} {
			if isReplyNum(side) {
				_, base := loadedField(stripNum(side))
				root, _ := fieldChain(base)
				if _, idx, ok := elemOf(root); ok && isInduction(idx) {
					elemIdxInduction = true
				} else if _, idx, ok := elemOf(base); ok && isInduction(idx) {
					elemIdxInduction = true
				}
			}
		}
		if elemIdxInduction {
			if every, found := passesEveryCompletedIteration(b); !found || !every {
				detail = "the comparison does not run for every element of the reply"
				return
			}
		}
		if lookup != nil {
			// the look-up may live in a helper of the routine (bm.claim(num, hash)): its call in the routine
			if lookup.Parent() != b.Parent() {
				for _, at := range reg.chain(lookup) {
					if at.Parent() == b.Parent() {
						lookup = at
					}
				}
			}
			if lookup.Parent() != b.Parent() {
				detail = "the comparison and the block look-up are in different helpers"
				return
			}
			if back, _ := reach(siteOf(lookup), isInstr(b), newCuts().addInstr(terminator(loopHeaderBlockOfRequests(fn)))); back {
				detail = "the block is looked up before the reply was compared with the asked block"
				return
			}
			if fwd, _ := reach(siteOf(b), isInstr(lookup), nil); !fwd {
				detail = "the comparison does not precede the block look-up"
				return
			}
		}
		if !elemIdxInduction {
			detail = "only the element the block is looked up by is compared; accepted"
		} else {
			detail = "every trace of the reply names the asked block"
		}
		good = true
	})
	if !good {
		// the comparison as the predicate of a search over the reply: slices.IndexFunc(res.Result, other) >= 0 → error
		for _, g := range reg.Funcs() {
			for _, sf := range elementSearches(g) {
				if lf, _ := loadedField(stripConv(sf.list)); lf == nil || lf.Name() != "Result" {
					continue
				}
				pred := sf.pred
				isElemNum := func(v ssa.Value) bool {
					f, base := loadedField(stripNum(v))
					if f == nil {
						if fv, isF := stripNum(v).(*ssa.Field); isF {
							f, base = fieldOf(fv)
						}
					}
					return f != nil && f.Name() == "BlockNum" && isParamOrCopy(base, pred, 0)
				}
				isCmp := func(v ssa.Value) (eq bool, ok bool) {
					b, isB := v.(*ssa.BinOp)
					if !isB || (b.Op != token.NEQ && b.Op != token.EQL) {
						return false, false
					}
					if (isElemNum(b.X) && isAsked(b.Y)) || (isElemNum(b.Y) && isAsked(b.X)) {
						return b.Op == token.EQL, true
					}
					return false, false
				}
				// the predicate is false only for a trace of the asked block
				var eqEdges []Edge
				found := false
				allInstrs(pred, func(in ssa.Instruction) {
					if v, isV := in.(ssa.Value); isV {
						if eq, ok := isCmp(v); ok {
							found = true
							t, f := boolEdges(v)
							if eq {
								eqEdges = append(eqEdges, t...)
							} else {
								eqEdges = append(eqEdges, f...)
							}
						}
					}
				})
				if !found {
					continue
				}
				predOK := true
				for _, r := range returnsOf(pred) {
					for _, lf := range phiLeaves(returnValues(r)[0]) {
						if k, isK := lf.Val.(*ssa.Const); isK && k.Value != nil && k.Value.String() == "true" {
							continue
						}
						if eq, ok := isCmp(lf.Val); ok && !eq {
							continue // the answer is the comparison `!=` itself
						}
						if len(eqEdges) > 0 && ((lf.Pred != nil && lf.Phi != nil && edgeGuarded(pred, lf.Pred, lf.Phi.Block(), eqEdges)) || guardedByEdges(pred, r, eqEdges)) {
							continue
						}
						predOK = false
					}
				}
				if !predOK {
					detail = "the search predicate can answer false for a trace of another block"
					continue
				}
				// a hit is an error
				armOK := len(sf.some) > 0
				for _, e := range sf.some {
					if arm, _ := errorArmLeaves(g, e, sf.none, nil); !arm {
						armOK = false
					}
				}
				if !armOK {
					detail = "a reply for another block is not an error"
					continue
				}
				// and the block is looked up only after the search found nothing
				if lookup != nil {
					at := lookup
					for _, x := range reg.chain(lookup) {
						if x.Parent() == g {
							at = x
						}
					}
					if at.Parent() != g || !guardedByEdges(g, at, sf.none) {
						detail = "the block is looked up before the reply was compared with the asked block"
						continue
					}
				}
				good, detail = true, "every trace of the reply names the asked block (searched with a predicate)"
			}
		}
	}
	c.Check("R7.5", "(*jrpc2.Client).traces/reply-is-for-the-asked-block", fn.Pos(), good, detail)
}

// loopHeaderBlockOfRequests: the header of the outermost counted loop of fn (the loop over the requests)
func loopHeaderBlockOfRequests(fn *ssa.Function) *ssa.BasicBlock {
	for _, b := range fn.DomPreorder() {
		iff, ok := terminator(b).(*ssa.If)
		if !ok {
			continue
		}
		if bo, ok := iff.Cond.(*ssa.BinOp); ok && bo.Op == token.LSS && isInduction(bo.X) {
			return b
		}
	}
	return fn.Blocks[0]
}

// blockLookupInstr: in looks a block up by number with a found flag: `b, ok := bm[n]` on a
// map of *eth.Block, or `b, ok := bm.at(n)` on a block-map type of the package with a look-up
// method.  Returns the tuple value and the number looked up.
func blockLookupInstr(in ssa.Instruction) (ssa.Value, ssa.Value, bool) {
	switch x := in.(type) {
	case *ssa.Lookup:
		if !x.CommaOk {
			return nil, nil, false
		}
		mt, isMap := x.X.Type().Underlying().(*types.Map)
		if !isMap {
			return nil, nil, false
		}
		if pt, ok := mt.Elem().Underlying().(*types.Pointer); !ok || !repoNamedIs(pt.Elem(), "eth", "Block") {
			return nil, nil, false
		}
		return x, x.Index, true
	case *ssa.Call:
		h := staticCallee(x)
		if h == nil || h.Signature.Recv() == nil || !isRepoFunc(h) || len(x.Call.Args) != 2 {
			return nil, nil, false
		}
		rn := namedOf(h.Signature.Recv().Type())
		if rn == nil || rn.Obj().Name() != "blockmap" {
			return nil, nil, false
		}
		res := h.Signature.Results()
		if res.Len() != 2 || !isBoolType(res.At(1).Type()) {
			return nil, nil, false
		}
		if pt, ok := res.At(0).Type().Underlying().(*types.Pointer); !ok || !repoNamedIs(pt.Elem(), "eth", "Block") {
			return nil, nil, false
		}
		// found only by number: the method answers true only with an element whose number was compared equal
		if !lookupMethodOK(h) {
			return nil, nil, false
		}
		return x, x.Call.Args[1], true
	}
	return nil, nil, false
}

var lookupMethodMemo = map[*ssa.Function]bool{}

// lookupMethodOK: h(bm, num) answers (p, true) only on the edge where the number of the very element p
// points to was compared equal with num, and (nil, false) otherwise.
func lookupMethodOK(h *ssa.Function) bool {
	if v, ok := lookupMethodMemo[h]; ok {
		return v
	}
	good := h.Blocks != nil && len(h.Params) == 2
	nTrue := 0
	if good {
		num := h.Params[1]
		for _, r := range returnsOf(h) {
			vals := returnValues(r)
			k, isK := vals[1].(*ssa.Const)
			if !isK || k.Value == nil {
				good = false
				continue
			}
			if k.Value.String() == "false" {
				if !isNilConst(vals[0]) {
					good = false
				}
				continue
			}
			nTrue++
			// the element handed out
			elem := stripConv(vals[0])
			eq, _ := cmpEdges(h, func(b *ssa.BinOp) bool {
				if b.Op != token.EQL {
					return false
				}
				for _, pair := range [][2]ssa.Value{{b.X, b.Y}, {b.Y, b.X}} {
					if stripNum(pair[1]) != ssa.Value(num) {
						continue
					}
					root, ch := fieldChain(stripNum(pair[0]))
					if len(ch) == 0 || !(ch[len(ch)-1].Name() == "Number" || ch[len(ch)-1].Name() == "Num") {
						// Num() of the element
						if call, ok := stripNum(pair[0]).(*ssa.Call); ok && staticCallee(call) != nil && staticCallee(call).Name() == "Num" && len(call.Call.Args) == 1 {
							root = stripConv(call.Call.Args[0])
						} else {
							continue
						}
					}
					if root == elem || sameVar(root, elem) {
						return true
					}
					// same element of the same slice by the same index
					s1, i1, ok1 := elemOf(root)
					s2, i2, ok2 := elemOf(elem)
					if ok1 && ok2 && i1 == i2 && (s1 == s2 || sameVar(s1, s2)) {
						return true
					}
				}
				return false
			})
			if len(eq) == 0 || !guardedByEdges(h, r, eq) {
				good = false
			}
		}
	}
	good = good && nTrue > 0
	lookupMethodMemo[h] = good
	return good
}

// loopHeaderDominates: the header of the counted loop around a dominates b's block (b comes after
// or inside the loop that a is part of).
func loopHeaderDominates(a, b ssa.Instruction) bool {
	for d := a.Block(); d != nil; d = d.Idom() {
		iff, ok := terminator(d).(*ssa.If)
		if !ok {
			continue
		}
		bo, ok := iff.Cond.(*ssa.BinOp)
		if !ok || bo.Op != token.LSS || !isInduction(bo.X) {
			continue
		}
		if back, _ := reach(siteOf(a), isInstr(iff), nil); back {
			return d.Dominates(b.Block())
		}
	}
	return false
}

// typeOfField: the name of the struct type that declares f (for construct names)
func typeOfField(f *types.Var) string {
	if currentWorld != nil {
		for _, p := range currentWorld.Pkgs {
			if p.Types != f.Pkg() {
				continue
			}
			sc := p.Types.Scope()
			for _, n := range sc.Names() {
				tn, ok := sc.Lookup(n).(*types.TypeName)
				if !ok {
					continue
				}
				st, ok := tn.Type().Underlying().(*types.Struct)
				if !ok {
					continue
				}
				for i := 0; i < st.NumFields(); i++ {
					if st.Field(i) == f {
						return n + "." + f.Name()
					}
				}
			}
		}
	}
	return f.Name()
}

// isParamOrCopy: base (the struct a member is read from, or its address) is parameter i of h or the local
// copy a by-value parameter is spilled to
func isParamOrCopy(base ssa.Value, h *ssa.Function, i int) bool {
	if paramRefOf(base, h) == i {
		return true
	}
	if al, ok := stripConv(base).(*ssa.Alloc); ok {
		if cvv := cellValue(al); cvv != nil {
			return paramRefOf(cvv, h) == i
		}
	}
	return false
}

// onlyNilTested: the address of a pointer member whose every use is a load that is compared with nil
func onlyNilTested(fa *ssa.FieldAddr) bool {
	if _, isPtr := fa.Type().Underlying().(*types.Pointer).Elem().Underlying().(*types.Pointer); !isPtr {
		return false
	}
	n := 0
	for _, ref := range *fa.Referrers() {
		u, ok := ref.(*ssa.UnOp)
		if !ok || u.Op != token.MUL {
			if _, dbg := ref.(*ssa.DebugRef); dbg {
				continue
			}
			return false
		}
		for _, r2 := range *u.Referrers() {
			b, isB := r2.(*ssa.BinOp)
			if !isB || (b.Op != token.EQL && b.Op != token.NEQ) || !(isNilConst(b.X) || isNilConst(b.Y)) {
				if _, dbg := r2.(*ssa.DebugRef); dbg {
					continue
				}
				return false
			}
			n++
		}
	}
	return n > 0
}

// literalNilTests: a function literal (or named predicate) created in fn tests member pf of its parameter against nil
func literalNilTests(fn *ssa.Function, pf *types.Var) bool {
	found := false
	var lits []*ssa.Function
	allInstrs(fn, func(in ssa.Instruction) {
		switch x := in.(type) {
		case *ssa.MakeClosure:
			lits = append(lits, x.Fn.(*ssa.Function))
		case ssa.CallInstruction:
			for _, a := range x.Common().Args {
				if f, ok := stripConv(a).(*ssa.Function); ok && f.Blocks != nil {
					lits = append(lits, f)
				}
			}
		}
	})
	// … or handed to fn itself by its callers (segmentOf(…, missing func(*R) bool))
	if currentWorld != nil {
		res := NewResolver(currentWorld)
		for _, ci := range callsIn(fn) {
			if _, isParam := ci.Common().Value.(*ssa.Parameter); isParam && !ci.Common().IsInvoke() {
				for _, cal := range res.Callees(ci) {
					if cal.Blocks != nil {
						lits = append(lits, cal)
					}
				}
			}
		}
	}
	for _, l := range lits {
		allInstrs(l, func(in ssa.Instruction) {
			b, ok := in.(*ssa.BinOp)
			if !ok || (b.Op != token.EQL && b.Op != token.NEQ) || !isNilConst(b.Y) {
				return
			}
			if f, _ := loadedField(stripConv(b.X)); f == pf {
				found = true
			}
			if fv, isF := stripConv(b.X).(*ssa.Field); isF {
				if f, _ := fieldOf(fv); f == pf {
					found = true
				}
			}
		})
	}
	return found
}
