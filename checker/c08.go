package main

import (
	"fmt"
	"go/token"
	"go/types"
	"strings"

	"golang.org/x/tools/go/ssa"
)

func init() { register("C08", propC08) }

func propC08(c *Ctx) {
	c.Explanation = "Most of cache transparency (equivalence with an uncached client, no duplicated or lost log, 'at most N successive reads' as a count) is a statement about histories and is declined. Three clauses are structural and decided: (R8.1) a failed fetch is never stored – every store to segment.d/segment.done is on the edge where the getter's error is nil, the error arm returns without storing, and the head cache is updated only after both error tests; (R8.2) the cached head is an announced pair – NumHash.Num/Hash are written only in update (from its two parameters, together, under the lock) and in get's expiry reset, and every update call passes (X.Number|Num, X.Hash) of ONE decoded value X; Latest's uncached return is such a pair too; (R8.3) the read budget is enforced under the lock: the counters are compared with maxreads on the path to every cached return, incremented before it, and pruning by budget happens before the segment look-up."
	w := c.W
	get := w.Fn("jrpc2", "(*cache).get")
	fD, fDone := w.Field("jrpc2", "segment", "d"), w.FieldOpt("jrpc2", "segment", "done")
	fSegReads := w.Field("jrpc2", "segment", "nreads")

	// ---- R8.1 -----------------------------------------------------------
	c.Rule("R8.1", "a failed fetch is never stored", 3)
	// segment state is written only from a fetch that returned a nil error (shared rule, inlined view of get)
	checkCacheStoresOnlySuccess(c, "R8.1")
	// head cache: update only after both error tests in Latest / httpPoll
	update := w.Fn("jrpc2", "(*NumHash).update")
	do := w.Fn("jrpc2", "(*Client).do")
	existsFn := w.Fn("jrpc2", "Error.Exists")
	for _, name := range []string{"(*Client).Latest", "(*Client).httpPoll"} {
		fn := w.Fn("jrpc2", name)
		freg := NewRegion(fn) // the request and its tests may live in a helper (latestHeader)
		var dos, exs []*ssa.Call
		for _, ci := range freg.Calls() {
			if call, ok := ci.(*ssa.Call); ok {
				switch staticCallee(call) {
				case do:
					dos = append(dos, call)
				case existsFn:
					exs = append(exs, call)
				}
			}
		}
		for i, u := range callsToFn(fn, update) {
			good := false
			for _, d := range dos {
				e, _ := errResult(d)
				isNil, _ := nilTestEdges(e)
				var exF []Edge
				for _, ex := range exs {
					if ex.Parent() != d.Parent() {
						continue
					}
					_, f := boolEdges(ex)
					exF = append(exF, f...)
				}
				// … or tested through a helper that reports the error member as a Go error (C07's summaries)
				for _, root := range respRootsOf(d) {
					fe, _ := existsFalseEdges(d.Parent(), root, existsFn, w.Fn("jrpc2", "(*NumHash).error"))
					exF = append(exF, fe...)
				}
				if freg.OnlyThrough(d, u, isNil) && freg.OnlyThrough(d, u, exF) && freg.Dominates(d, u) {
					good = true
				}
			}
			c.Check("R8.1", fmt.Sprintf("%s/update#%d-after-error-tests", fnName(fn), i+1), u.Pos(), good, "the head cache is updated only from a reply whose transport error and error member were tested")
		}
	}

	c.Rule("R8.4", "the cache serves only the segment fetched for exactly this (start, limit)", 3)
	checkCacheKeyIdentity(c, "R8.4")
	c.Rule("R8.6", "each segment cache is filled by exactly one fetch routine", 4)
	checkCachePerRoutine(c, "R8.6")
	c.Rule("R8.5", "a log is dropped from a shared block only when the same log index is already attached", 2)
	checkLogsAddDedup(c, "R8.5")
	checkLogsMergedNotReplaced(c, "R8.5")
	checkTracesReplaced(c, "R8.5")

	// ---- R8.2 -----------------------------------------------------------
	c.Rule("R8.2", "the cached head is always a (number, hash) pair of one announced header", 5)
	fNum, fHash := w.Field("jrpc2", "NumHash", "Num"), w.Field("jrpc2", "NumHash", "Hash")
	nhGet := w.Fn("jrpc2", "(*NumHash).get")
	// who may write
	for _, f := range []*types.Var{fNum, fHash} {
		var bad []string
		n := 0
		for _, fn := range w.RepoFuncs() {
			allInstrs(fn, func(in ssa.Instruction) {
				fa, ok := in.(*ssa.FieldAddr)
				if !ok {
					return
				}
				if ff, _ := fieldOf(fa); ff != f {
					return
				}
				if isLocalAlloc(accessPath(fa.X).Root) {
					return
				}
				for _, ref := range *fa.Referrers() {
					write := false
					switch x := ref.(type) {
					case *ssa.Store:
						write = x.Addr == ssa.Value(fa)
					case ssa.CallInstruction:
						if cal := staticCallee(x); cal != nil && cal.Name() == "Write" && len(x.Common().Args) > 0 && x.Common().Args[0] == ssa.Value(fa) {
							write = true
						}
					}
					if !write {
						continue
					}
					n++
					// only NumHash's own methods write the pair …
					recvOK := fn.Signature.Recv() != nil && repoNamedIs(fn.Signature.Recv().Type(), "jrpc2", "NumHash")
					if !recvOK {
						bad = append(bad, fnName(fn)+" at "+w.Pos(instrPos(ref)))
						continue
					}
					// … and never one half of it alone: a write of the other field stands on the same path
					other := fHash
					if f == fHash {
						other = fNum
					}
					paired := false
					allInstrs(fn, func(in2 ssa.Instruction) {
						fa2, ok := in2.(*ssa.FieldAddr)
						if !ok {
							return
						}
						if ff, _ := fieldOf(fa2); ff != other {
							return
						}
						for _, ref2 := range *fa2.Referrers() {
							w2 := false
							switch y := ref2.(type) {
							case *ssa.Store:
								w2 = y.Addr == ssa.Value(fa2)
							case ssa.CallInstruction:
								if cal := staticCallee(y); cal != nil && cal.Name() == "Write" && len(y.Common().Args) > 0 && y.Common().Args[0] == ssa.Value(fa2) {
									w2 = true
								}
							}
							if w2 && (dominatesInstr(ref, ref2) || dominatesInstr(ref2, ref)) {
								paired = true
							}
						}
					})
					if !paired {
						bad = append(bad, fnName(fn)+" writes "+f.Name()+" without "+other.Name()+" at "+w.Pos(instrPos(ref)))
					}
				}
			})
		}
		c.Check("R8.2", "who-may-write/NumHash."+f.Name(), f.Pos(), n > 0 && len(bad) == 0, fmt.Sprintf("%d writes, all in methods of NumHash and always together with the other half of the pair; offenders: %v", n, bad))
	}
	// the hash handed to a caller is a copy: the caller keeps it across the
	// next update, which rewrites the cached bytes in place
	{
		nRet := 0
		for _, r := range returnsOf(nhGet) {
			vals := returnValues(r)
			if len(vals) == 2 {
				// the pair handed out as one value: its hash member
				if _, iH, ok := pairFields(vals[0].Type()); ok {
					if hv, ok := fieldValue(cv(vals[0]), iH, false, 0); ok {
						if k, isK := unfold(hv).v.(*ssa.Const); isK && k.Value == nil {
							continue
						}
						vals = []ssa.Value{nil, unfold(hv).v, vals[1]}
					} else if k, isK := vals[1].(*ssa.Const); isK && k.Value != nil && k.Value.String() == "false" {
						continue // the miss arms hand out the zero pair
					} else if definitelyNonNilError(vals[1], nil) {
						continue // … or report the miss as an error
					}
				}
			}
			if len(vals) != 3 {
				continue
			}
			if _, isSl := vals[1].Type().Underlying().(*types.Slice); !isSl || isNilConst(vals[1]) {
				continue
			}
			nRet++
			alias := sliceAliases(vals[1], func(v ssa.Value) bool {
				lf, _ := loadedField(v)
				return lf == fHash
			}, 0)
			c.Check("R8.2", fmt.Sprintf("NumHash.get/returned-hash#%d-is-a-copy", nRet), instrPos(r), !alias,
				"the hash returned on a cache hit does not share storage with the cached hash (fresh allocation filled by copy)")
		}
	}
	// in update: Num ← param n, Hash.Write(param h), same lock region
	{
		var pN, pH *ssa.Parameter
		for _, p := range update.Params[1:] {
			if _, ok := p.Type().Underlying().(*types.Slice); ok {
				pH = p
			} else {
				pN = p
			}
		}
		// the pair as one parameter (update(hd head)): its two members
		var pPair *ssa.Parameter
		pairNum, pairHash := -1, -1
		if len(update.Params) == 2 {
			if iN, iH, ok := pairFields(update.Params[1].Type()); ok {
				pPair, pairNum, pairHash = update.Params[1], iN, iH
			}
		}
		memberOf := func(v ssa.Value, idx int) bool {
			if pPair == nil {
				return false
			}
			v = stripNum(stripConv(v))
			switch x := v.(type) {
			case *ssa.Field:
				return x.Field == idx && paramRefOf(x.X, update) == 1
			case *ssa.UnOp:
				if fa, ok := x.X.(*ssa.FieldAddr); ok && x.Op == token.MUL && fa.Field == idx {
					if al, ok := fa.X.(*ssa.Alloc); ok {
						if cvv := cellValue(al); cvv != nil {
							return cvv == ssa.Value(pPair)
						}
						// the spilled parameter
						return rootParam(cval{v: al}) == pPair
					}
				}
			}
			return false
		}
		okN, okH := false, false
		allInstrs(update, func(in ssa.Instruction) {
			switch x := in.(type) {
			case *ssa.Store:
				if f, _ := fieldOf(x.Addr); f == fNum && (x.Val == ssa.Value(pN) || memberOf(x.Val, pairNum)) {
					okN = true
				}
			case *ssa.Call:
				if cal := staticCallee(x); cal != nil && cal.Name() == "Write" {
					if f, _ := fieldOf(x.Call.Args[0]); f == fHash && (stripConv(x.Call.Args[1]) == ssa.Value(pH) || memberOf(x.Call.Args[1], pairHash)) {
						okH = true
					}
				}
			}
		})
		c.Check("R8.2", "NumHash.update/writes-both-parameters", update.Pos(), okN && okH, "update stores its number and hash parameters together")
	}
	// every update call passes (X.num, X.hash) of one value
	nUp := 0
	for _, fn := range w.RepoFuncs() {
		for _, u := range callsToFn(fn, update) {
			nUp++
			if len(u.Call.Args) == 2 {
				// the pair as one value: a literal or the result of the function that reads the head; its two
				// members are the number and the hash of one decoded value
				good := false
				if iN, iH, ok := pairFields(u.Call.Args[1].Type()); ok {
					nv, ok1 := fieldValue(cv(u.Call.Args[1]), iN, false, 0)
					hv, ok2 := fieldValue(cv(u.Call.Args[1]), iH, false, 0)
					good = ok1 && ok2 && samePairSource(nv, hv)
				}
				c.Check("R8.2", fmt.Sprintf("%s/update#%d-pair", fnName(fn), callOrdinal(u)), u.Pos(), good, "update receives the number and the hash of one decoded header value")
				continue
			}
			r0, ch0 := fieldChain(u.Call.Args[1])
			r1, ch1 := fieldChain(u.Call.Args[2])
			same := r0 != nil && r1 != nil && (r0 == r1 || sameVar(r0, r1)) && len(ch0) > 0 && len(ch1) > 0
			if same {
				// same prefix, last fields are a number and a hash field
				p0, p1 := ch0[:len(ch0)-1], ch1[:len(ch1)-1]
				same = chainIs(p0, p1...)
				l0, l1 := ch0[len(ch0)-1].Name(), ch1[len(ch1)-1].Name()
				same = same && (l0 == "Number" || l0 == "Num") && l1 == "Hash"
			}
			c.Check("R8.2", fmt.Sprintf("%s/update#%d-pair", fnName(fn), callOrdinal(u)), u.Pos(), same, "update receives the number and the hash of one decoded header value")
		}
	}
	if nUp < 2 {
		c.Violation("R8.2", "update-call-sites", update.Pos(), fmt.Sprintf("expected >= 2 update call sites (the websocket listener and the HTTP path – poller and Latest, possibly through one helper), found %d", nUp))
	}
	// Latest's uncached return
	{
		latest := w.Fn("jrpc2", "(*Client).Latest")
		n := 0
		for _, r := range returnsOf(latest) {
			vals := returnValues(r)
			if len(vals) != 3 || !isNilConst(vals[2]) {
				continue
			}
			n++
			// cached return: results of lcache.get ; uncached: fields of one response
			if call, _ := resultOf(vals[0]); call != nil && staticCallee(call) == nhGet {
				c2, _ := resultOf(vals[1])
				c.Check("R8.2", fmt.Sprintf("Latest/return#%d", n), instrPos(r), c2 == call, "cached head: number and hash from the same NumHash.get call")
				continue
			}
			r0, ch0 := fieldChain(vals[0])
			r1, ch1 := fieldChain(vals[1])
			ok := r0 != nil && (r0 == r1 || sameVar(r0, r1)) && len(ch0) > 0 && len(ch1) > 0 && ch0[len(ch0)-1].Name() == "Number" && ch1[len(ch1)-1].Name() == "Hash"
			if !ok && r0 != nil && r0 == r1 {
				// the two members of one pair value: from the cache, or built from one response
				src := stripConv(r0)
				if al, isAl := src.(*ssa.Alloc); isAl {
					if cvv := cellValue(al); cvv != nil {
						src = stripConv(cvv) // the pair spilled to a local
					}
				}
				if call, _ := resultOf(src); call != nil && staticCallee(call) == nhGet {
					c.Check("R8.2", fmt.Sprintf("Latest/return#%d", n), instrPos(r), true, "cached head: number and hash of the pair one NumHash.get call handed out")
					continue
				}
				ok = samePairSource(cv(vals[0]), cv(vals[1]))
			}
			c.Check("R8.2", fmt.Sprintf("Latest/return#%d", n), instrPos(r), ok, "uncached head: number and hash of the same response")
		}
	}

	// ---- R8.3 -----------------------------------------------------------
	c.Rule("R8.3", "the read budget guards every cached return", 4)
	fNHReads, fNHMax := w.Field("jrpc2", "NumHash", "nreads"), w.Field("jrpc2", "NumHash", "maxreads")
	fCMax := w.Field("jrpc2", "cache", "maxreads")
	{
		// NumHash.get: cached return (ok == true) is on the false edge of nreads >= maxreads and after nreads++
		isReads := func(v ssa.Value) bool { return isFieldArg(v, fNHReads) }
		isMax := func(v ssa.Value) bool { return isFieldArg(v, fNHMax) }
		_, under := cmpEdgesVF(nhGet, token.GEQ, isReads, isMax, fNHReads, fNHMax)
		var inc ssa.Instruction
		if incs, _ := fieldOps(nhGet, fNHReads); len(incs) > 0 {
			inc = incs[len(incs)-1]
		}
		n := 0
		for _, r := range returnsOf(nhGet) {
			vals := returnValues(r)
			last := vals[len(vals)-1]
			cst, isK := last.(*ssa.Const)
			// a hit: ok == true, or – when misses are reported as errors – a nil error
			if isK && ((cst.Value != nil && cst.Value.String() == "true") || (cst.Value == nil && isErrorType(last.Type()))) {
				n++
				ok := len(under) > 0 && guardedByEdges(nhGet, r, under) && inc != nil && dominatesInstr(inc, r)
				c.Check("R8.3", fmt.Sprintf("NumHash.get/cached-return#%d", n), instrPos(r), ok, "a cached head is served only while nreads < maxreads, and the read is counted")
			}
		}
		if n == 0 {
			c.Violation("R8.3", "NumHash.get/cached-return", nhGet.Pos(), "no cached return found")
		}
		// expiry arm resets the pair
		over, _ := cmpEdgesVF(nhGet, token.GEQ, isReads, isMax, fNHReads, fNHMax)
		okReset := len(over) > 0
		for _, e := range over {
			resetNum := false
			isReset := func(in ssa.Instruction) bool {
				if st, ok := in.(*ssa.Store); ok {
					if f, _ := fieldOf(st.Addr); f == fNum {
						if n, ok := constInt(st.Val); ok && n == 0 {
							return true
						}
					}
				}
				return false
			}
			nhReg := NewRegion(nhGet)
			reach(Site{e.To, -1}, func(in ssa.Instruction) bool {
				if isReset(in) {
					resetNum = true
				}
				// a helper called on this arm that resets the pair on every path
				if call, ok := in.(*ssa.Call); ok {
					if h := regionCallee(call); h != nil && nhReg.site[h] == ssa.CallInstruction(call) {
						allInstrs(h, func(x ssa.Instruction) {
							if isReset(x) && passesBeforeReturn(x) {
								resetNum = true
							}
						})
					}
				}
				return false
			}, nil)
			if !resetNum {
				okReset = false
			}
		}
		c.Check("R8.3", "NumHash.get/expiry-resets-head", nhGet.Pos(), okReset, "when the budget is used up the cached head is cleared (next caller asks the source)")
	}
	{
		// cache.get: seg.nreads++ precedes the cached return; pruneMaxRead precedes the look-up; pruneMaxRead deletes on nreads >= maxreads
		prune := w.FnOpt("jrpc2", "(*cache).pruneMaxRead")
		reg := NewRegion(get) // get with its single-use helpers inlined
		fSegs := w.Field("jrpc2", "cache", "segments")
		// the predicate of maps.DeleteFunc(c.segments, pred): true exactly at nreads >= maxreads
		judgePred := func(v ssa.Value) bool {
			var pred *ssa.Function
			switch p := stripConv(v).(type) {
			case *ssa.MakeClosure:
				pred = p.Fn.(*ssa.Function)
			case *ssa.Function:
				pred = p
			}
			if pred == nil {
				return false
			}
			if real := unwrapBound(pred); len(real) == 1 {
				pred = real[0] // a method value (c.spent)
			}
			good, nRet := true, 0
			for _, r := range returnsOf(pred) {
				for _, lf := range phiLeaves(returnValues(r)[0]) {
					nRet++
					b, isB := lf.Val.(*ssa.BinOp)
					if !isB || b.Op != token.GEQ || !isLoadOfField(b.X, fSegReads) || !(isLoadOfField(b.Y, fCMax) || fieldIsLoadThroughFreeVar(b.Y, fCMax)) {
						good = false
					}
				}
			}
			return good && nRet > 0
		}
		isDeleteFunc := func(call *ssa.Call) bool {
			n := calleeName(call)
			return (n == "maps.DeleteFunc" || strings.HasPrefix(n, "maps.DeleteFunc[")) && len(call.Call.Args) == 2 && isLoadOfField(stripConv(call.Call.Args[0]), fSegs)
		}
		var inc ssa.Instruction
		var doneStores []ssa.Instruction
		reg.AllInstrs(func(in ssa.Instruction) {
			if st, ok := in.(*ssa.Store); ok {
				switch f, _ := fieldOf(st.Addr); {
				case f == fSegReads:
					if k, isK := constInt(st.Val); !isK || k != 0 {
						inc = st
					}
				case fDone != nil && f == fDone:
					if k, isC := st.Val.(*ssa.Const); isC && k.Value != nil && k.Value.String() == "true" {
						doneStores = append(doneStores, st)
					}
				}
			}
		})
		for _, f := range reg.Funcs() {
			if incs, _ := fieldOps(f, fSegReads); len(incs) > 0 && inc == nil {
				inc = incs[0] // through a counter method (seg.nreads.take())
			}
		}
		var doneT []Edge
		reg.AllInstrs(func(in ssa.Instruction) {
			if u, ok := in.(*ssa.UnOp); ok && u.Op == token.MUL {
				if ff, _ := fieldOf(u.X); fDone != nil && ff == fDone {
					a, _ := boolEdges(u)
					doneT = append(doneT, a...)
				}
			}
		})
		// a return of the segment's blocks is reached only through `done` being
		// true or through the store that sets it (after a successful fetch)
		cuts := newCuts().addEdges(doneT)
		for _, st := range doneStores {
			cuts.addInstr(st) // for returns in the store's own function
			if l := reg.Lift(st); l != nil && passesOnSuccess(reg, st) {
				for _, at := range reg.chain(st) {
					if at != st {
						cuts.addInstr(at) // the calls of the helpers it lives in
					}
				}
			}
		}
		n := 0
		for _, rv := range reg.SuccessReturns() {
			r, vals := rv.Ret, rv.Vals
			if !isLoadOfField(vals[0], fD) {
				continue
			}
			n++
			rfn := r.Parent()
			bypass, _ := reach(entrySite(rfn), isInstr(r), cuts)
			c.Check("R8.3", fmt.Sprintf("cache.get/cached-return#%d", n), instrPos(r), !bypass && inc != nil && reg.Dominates(inc, r),
				"a segment's blocks are returned only when it is done (or was just filled), and the read is counted first")
		}
		if n == 0 {
			c.Violation("R8.3", "cache.get/cached-return", get.Pos(), "no cached return (segment.done) found")
		}
		var lookup ssa.Instruction
		reg.AllInstrs(func(in ssa.Instruction) {
			if lk, ok := in.(*ssa.Lookup); ok {
				if _, isMap := lk.X.Type().Underlying().(*types.Map); isMap {
					lookup = lk
				}
			}
		})
		var pr []ssa.Instruction
		inlineDel := false
		for _, ci := range reg.Calls() {
			call, ok := ci.(*ssa.Call)
			if !ok {
				continue
			}
			if prune != nil && staticCallee(call) == prune {
				pr = append(pr, call)
			}
			// the eviction written where it is needed: maps.DeleteFunc(c.segments, c.spent)
			if prune == nil && isDeleteFunc(call) {
				pr = append(pr, call)
				inlineDel = judgePred(call.Call.Args[1])
			}
		}
		c.Check("R8.3", "cache.get/prune-before-lookup", get.Pos(), len(pr) == 1 && lookup != nil && reg.Dominates(pr[0], lookup), "segments whose budget is used up are evicted before the look-up")
		if prune == nil {
			pos := get.Pos()
			if len(pr) == 1 {
				pos = pr[0].Pos()
			}
			c.Check("R8.3", "cache.pruneMaxRead/evicts-at-budget", pos, inlineDel, "a segment with nreads >= maxreads is deleted from the map")
			return
		}
		over, _ := cmpEdgesVF(prune, token.GEQ, func(v ssa.Value) bool { return isFieldArg(v, fSegReads) }, func(v ssa.Value) bool { return isFieldArg(v, fCMax) }, fSegReads, fCMax)
		okDel := len(over) > 0
		for _, e := range over {
			del := false
			for _, in := range e.To.Instrs {
				if call, ok := in.(*ssa.Call); ok {
					if b, ok := call.Call.Value.(*ssa.Builtin); ok && b.Name() == "delete" {
						del = true
					}
				}
			}
			if !del {
				okDel = false
			}
		}
		if !okDel {
			// the same with the standard library: maps.DeleteFunc(c.segments, func(k, v) bool { return v.nreads >= c.maxreads })
			for _, ci := range callsIn(prune) {
				if call, ok := ci.(*ssa.Call); ok && isDeleteFunc(call) && judgePred(call.Call.Args[1]) {
					okDel = true
				}
			}
		}
		c.Check("R8.3", "cache.pruneMaxRead/evicts-at-budget", prune.Pos(), okDel, "a segment with nreads >= maxreads is deleted from the map")
	}
}

// passesOnSuccess: a store inside an inlined helper counts as executed at the
// helper's call site for paths on which the helper reports success: every
// path from the helper's entry to a return whose error result is nil passes
// the store.
func passesOnSuccess(reg *Region, st ssa.Instruction) bool {
	ch := reg.chain(st)
	for k := 1; k < len(ch); k++ {
		fn := ch[k].Parent()
		cuts := newCuts().addInstr(ch[k])
		hit, _ := reach(entrySite(fn), func(in ssa.Instruction) bool {
			r, ok := in.(*ssa.Return)
			if !ok {
				return false
			}
			vals := returnValues(r)
			if len(vals) == 0 {
				return true
			}
			last := vals[len(vals)-1]
			if isErrorType(last.Type()) {
				return isNilConst(last) // a success return reached without the store
			}
			return true
		}, cuts)
		if hit {
			return false
		}
	}
	return true
}

// sliceAliases: may the slice value v share its backing array with a value
// satisfying isRoot?  make/Clone results and nil are fresh; re-slicing and
// append onto a value keep its array (append may, when capacity allows).
func sliceAliases(v ssa.Value, isRoot func(ssa.Value) bool, d int) bool {
	v = stripConv(v)
	if isRoot(v) {
		return true
	}
	if d > 8 {
		return true
	}
	switch x := v.(type) {
	case *ssa.Slice:
		return sliceAliases(x.X, isRoot, d+1)
	case *ssa.Phi:
		for _, e := range x.Edges {
			if sliceAliases(e, isRoot, d+1) {
				return true
			}
		}
		return false
	case *ssa.Call:
		switch calleeName(x) {
		case "builtin append":
			return sliceAliases(x.Call.Args[0], isRoot, d+1)
		case "bytes.Clone", "slices.Clone":
			return false
		}
		return false
	case *ssa.MakeSlice, *ssa.Const, *ssa.Alloc:
		return false
	case *ssa.UnOp:
		if al, ok := x.X.(*ssa.Alloc); ok {
			if cv := cellValue(al); cv != nil {
				return sliceAliases(cv, isRoot, d+1)
			}
		}
	}
	return false
}

// fieldIsLoadThroughFreeVar: v loads field f of an object a function literal captured.
func fieldIsLoadThroughFreeVar(v ssa.Value, f *types.Var) bool {
	lf, _ := loadedField(stripConv(v))
	return lf == f
}
