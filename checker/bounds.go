package main

// bounds.go (analysis A5): a small prover for index/slice bounds on byte
// slices and strings, over SSA, without a solver.
//
// Values are abstracted to linear expressions over atoms (lengths of slices,
// opaque integers, halves); a program point carries the facts implied by the
// branch edges that dominate it; an obligation `e >= 0` is discharged when it
// is a non-negative combination of at most three facts/axioms.  Unsigned→int
// conversions are the identity only when the operand is provably bounded by
// a length; otherwise the result is an arbitrary integer (this is how an
// unchecked `int(bint.Decode(word))` makes every later slice undecidable).
// Loads through a pointer parameter (`*hb`) are versioned (memory SSA) so the
// ensure-capacity idiom can be followed across its join.

import (
	"fmt"
	"go/token"
	"go/types"
	"sort"
	"strings"

	"golang.org/x/tools/go/ssa"
)

type lin struct {
	c int64
	t map[string]int64
}

func konst(c int64) lin { return lin{c: c, t: map[string]int64{}} }
func atomLin(a string) lin {
	return lin{t: map[string]int64{a: 1}}
}
func (a lin) add(b lin) lin {
	o := lin{c: a.c + b.c, t: map[string]int64{}}
	for k, v := range a.t {
		o.t[k] += v
	}
	for k, v := range b.t {
		o.t[k] += v
	}
	for k, v := range o.t {
		if v == 0 {
			delete(o.t, k)
		}
	}
	return o
}
func (a lin) scale(k int64) lin {
	o := lin{c: a.c * k, t: map[string]int64{}}
	for n, v := range a.t {
		if v*k != 0 {
			o.t[n] = v * k
		}
	}
	return o
}
func (a lin) sub(b lin) lin { return a.add(b.scale(-1)) }
func (a lin) isConst() bool { return len(a.t) == 0 }
func (a lin) String() string {
	var ks []string
	for k := range a.t {
		ks = append(ks, k)
	}
	sort.Strings(ks)
	var b strings.Builder
	for _, k := range ks {
		fmt.Fprintf(&b, "%+d*%s", a.t[k], k)
	}
	fmt.Fprintf(&b, "%+d", a.c)
	return b.String()
}

type fact struct {
	e   lin // e >= 0
	why string
}

type memVersion struct {
	val    ssa.Value // the SSA value stored (nil = initial contents / phi)
	lenVal ssa.Value // contents unknown, length known: what a resizing helper was told (hb.resize(n))
	phi    map[*ssa.BasicBlock]*memVersion
	id     string
}

type bprover struct {
	fn        *ssa.Function
	w         *World
	ids       map[ssa.Value]string
	nid       int
	global    []fact // invariants valid everywhere (phi lower bounds, unsigned atoms, assumptions)
	axioms    map[string]bool
	memIn     map[*ssa.BasicBlock]*memVersion
	loadVer   map[*ssa.UnOp]*memVersion
	callVers  map[*ssa.Call]*memVersion
	cell      ssa.Value // the versioned pointer parameter
	halfOf    map[string]lin
	maxes     map[string][2]lin   // max(a, b) atoms: their two operands
	slicePhis map[string]*ssa.Phi // len(φ) atoms of byte-sequence phis
	assume    []string
	depth     int
	// succFacts: what holds when the error a helper call handed back is nil (keyed by that error value):
	// the helper's own guards on the way to its successful returns, written over the call's arguments
	succFacts map[ssa.Value][]fact
	succBool  map[ssa.Value]bool // the key is a boolean "ok" result: the facts hold when it is true
}

func newBProver(w *World, fn *ssa.Function) *bprover {
	p := &bprover{fn: fn, w: w, ids: map[ssa.Value]string{}, axioms: map[string]bool{}, memIn: map[*ssa.BasicBlock]*memVersion{}, loadVer: map[*ssa.UnOp]*memVersion{}, halfOf: map[string]lin{}}
	p.memSSA()
	p.phiInvariants()
	return p
}

func (p *bprover) id(v ssa.Value) string {
	if s, ok := p.ids[v]; ok {
		return s
	}
	// a byte of an (immutable) string at the same index is the same value
	// wherever it is read: go/ssa does no common-subexpression elimination
	var sx, si ssa.Value
	switch x := v.(type) {
	case *ssa.Index:
		sx, si = x.X, x.Index
	case *ssa.Lookup:
		sx, si = x.X, x.Index
	}
	if sx != nil {
		if b, ok := sx.Type().Underlying().(*types.Basic); ok && b.Info()&types.IsString != 0 {
			s := "strbyte(" + p.id(sx) + "," + p.id(si) + ")"
			p.ids[v] = s
			return s
		}
	}
	p.nid++
	n := v.Name()
	if par, ok := v.(*ssa.Parameter); ok {
		n = par.Name()
	}
	s := fmt.Sprintf("%s#%d", n, p.nid)
	p.ids[v] = s
	return s
}

func isUnsigned(t types.Type) bool {
	b, ok := t.Underlying().(*types.Basic)
	return ok && b.Info()&types.IsUnsigned != 0
}

func isIntType(t types.Type) bool {
	b, ok := t.Underlying().(*types.Basic)
	return ok && b.Info()&types.IsInteger != 0
}

// ---- memory SSA for the one pointer-to-slice parameter -----------------------

func (p *bprover) memSSA() {
	for _, par := range p.fn.Params {
		if pt, ok := par.Type().Underlying().(*types.Pointer); ok {
			if _, isSl := pt.Elem().Underlying().(*types.Slice); isSl {
				p.cell = par
			}
		}
	}
	if p.cell == nil {
		return
	}
	init := &memVersion{id: "mem0"}
	out := map[*ssa.BasicBlock]*memVersion{}
	order := p.fn.DomPreorder()
	changed := true
	nphi := 0
	for iter := 0; changed && iter < 10; iter++ {
		changed = false
		for _, b := range order {
			var in *memVersion
			if b == p.fn.Blocks[0] {
				in = init
			} else {
				var vs []*memVersion
				same := true
				for _, pr := range b.Preds {
					if o, ok := out[pr]; ok {
						vs = append(vs, o)
						if vs[0] != o {
							same = false
						}
					}
				}
				if len(vs) == 0 {
					continue
				}
				if same && len(vs) == len(b.Preds) {
					in = vs[0]
				} else {
					if cur, ok := p.memIn[b]; ok && cur.phi != nil {
						in = cur
					} else {
						nphi++
						in = &memVersion{phi: map[*ssa.BasicBlock]*memVersion{}, id: fmt.Sprintf("mphi%d", nphi)}
					}
					for _, pr := range b.Preds {
						if o, ok := out[pr]; ok && in.phi[pr] != o {
							in.phi[pr] = o
							changed = true
						}
					}
				}
			}
			if p.memIn[b] != in {
				p.memIn[b] = in
				changed = true
			}
			cur := in
			for _, ins := range b.Instrs {
				switch x := ins.(type) {
				case *ssa.UnOp:
					if x.Op == token.MUL && x.X == p.cell {
						p.loadVer[x] = cur
					}
				case *ssa.Store:
					if x.Addr == p.cell {
						cur = &memVersion{val: x.Val, id: "st:" + p.id(x.Val)}
					}
				case *ssa.Call:
					// a callee that receives the pointer may write through it
					if mv := p.callVersion(x); mv != nil {
						cur = mv
					}
				}
			}
			if out[b] != cur {
				out[b] = cur
				changed = true
			}
		}
	}
}

// ---- abstraction ---------------------------------------------------------------

// lenOf: linear expression for len(v).
func (p *bprover) lenOf(v ssa.Value, at *ssa.BasicBlock) lin {
	p.depth++
	defer func() { p.depth-- }()
	if p.depth > 40 {
		return atomLin("len(" + p.id(v) + ")")
	}
	if n, isArr := arrayLen(v.Type()); isArr {
		return konst(n)
	}
	if ph, isPhi := v.(*ssa.Phi); isPhi && isByteSeq(ph.Type()) {
		a := "len(" + p.id(v) + ")"
		p.axioms[a] = true
		if p.slicePhis == nil {
			p.slicePhis = map[string]*ssa.Phi{}
		}
		p.slicePhis[a] = ph
		return atomLin(a)
	}
	switch x := v.(type) {
	case *ssa.Slice:
		var hi lin
		if x.High != nil {
			hi = p.val(x.High, at)
		} else {
			hi = p.lenOf(x.X, at)
		}
		lo := konst(0)
		if x.Low != nil {
			lo = p.val(x.Low, at)
		}
		return hi.sub(lo)
	case *ssa.ChangeType:
		return p.lenOf(x.X, at)
	case *ssa.Convert:
		return p.lenOf(x.X, at)
	case *ssa.MakeSlice:
		return p.val(x.Len, at)
	case *ssa.Const:
		if s, ok := constString(x); ok {
			return konst(int64(len(s)))
		}
		if x.IsNil() {
			return konst(0)
		}
	case *ssa.Call:
		if calleeName(x) == "builtin append" && len(x.Call.Args) == 2 {
			a := p.lenOf(x.Call.Args[0], at)
			if sl, ok := x.Call.Args[1].(*ssa.Slice); ok {
				if vs, ok := varargValues(sl); ok {
					return a.add(konst(int64(len(vs))))
				}
			}
			return a.add(p.lenOf(x.Call.Args[1], at))
		}
	case *ssa.UnOp:
		if mv, ok := p.loadVer[x]; ok {
			return p.lenOfMem(mv, at)
		}
		// a local slice variable whose address was taken (`c.do(…, &resp, …)`): loads that see the same last
		// write denote the same slice
		if al, ok := x.X.(*ssa.Alloc); ok && x.Op == token.MUL {
			if ver := cellVersion(al, x); ver != nil {
				a := "len(" + p.id(al) + "@" + p.id(ver.(ssa.Value)) + ")"
				p.axioms[a] = true
				return atomLin(a)
			}
		}
	}
	if key, ok := p.paramFieldKey(v); ok {
		a := "len(" + key + ")"
		p.axioms[a] = true
		return atomLin(a)
	}
	a := "len(" + p.id(v) + ")"
	p.axioms[a] = true
	return atomLin(a)
}

// paramFieldKey: v is a load of a field path of a parameter (or of the local
// copy a value parameter is spilled to) that is never stored to in this
// function: all such loads denote the same value.
func (p *bprover) paramFieldKey(v ssa.Value) (string, bool) {
	root, chain := fieldChain(v)
	if len(chain) == 0 {
		return "", false
	}
	var par *ssa.Parameter
	switch r := root.(type) {
	case *ssa.Parameter:
		par = r
	case *ssa.Alloc:
		if cv := cellValue(r); cv != nil {
			par, _ = cv.(*ssa.Parameter)
		}
		// field stores into the copy would invalidate the identity
		for _, ref := range *r.Referrers() {
			if fa, ok := ref.(*ssa.FieldAddr); ok {
				for _, r2 := range *fa.Referrers() {
					if st, ok := r2.(*ssa.Store); ok && st.Addr == ssa.Value(fa) {
						return "", false
					}
				}
			}
		}
	}
	if par == nil {
		return "", false
	}
	if _, isPtr := par.Type().Underlying().(*types.Pointer); isPtr {
		return "", false // the pointee may change
	}
	k := par.Name()
	for _, f := range chain {
		k += "." + f.Name()
	}
	return k, true
}

func (p *bprover) lenOfMem(mv *memVersion, at *ssa.BasicBlock) lin {
	if mv.val != nil {
		return p.lenOf(mv.val, at)
	}
	if mv.lenVal != nil {
		return p.val(mv.lenVal, at)
	}
	a := "len(" + mv.id + ")"
	p.axioms[a] = true
	return atomLin(a)
}

// val: linear expression for an integer value as seen from block `at`.
func (p *bprover) val(v ssa.Value, at *ssa.BasicBlock) lin {
	p.depth++
	defer func() { p.depth-- }()
	if p.depth > 40 {
		return atomLin(p.id(v))
	}
	switch x := v.(type) {
	case *ssa.Const:
		if n, ok := constInt(x); ok {
			return konst(n)
		}
	case *ssa.BinOp:
		switch x.Op {
		case token.ADD:
			if isUnsigned(x.Type()) {
				// unsigned addition wraps: it is the integer sum only when neither operand can be huge –
				// a constant, or a value already bounded by a length (`end := 32 + length` with length an
				// arbitrary word from the data wraps to a small number for lengths near 2^64)
				a, b := p.val(x.X, at), p.val(x.Y, at)
				facts := p.factsAt(x.Block())
				small := func(l lin) bool { return l.isConst() || p.boundedByLength(l, facts) }
				if small(a) && small(b) {
					return a.add(b)
				}
				return atomLin("wrapadd(" + p.id(x) + ")")
			}
			return p.val(x.X, at).add(p.val(x.Y, at))
		case token.SUB:
			if isUnsigned(x.Type()) {
				// unsigned subtraction wraps unless X >= Y is known
				l := p.val(x.X, at).sub(p.val(x.Y, at))
				if p.prove(l, p.factsAt(x.Block()), 0) {
					return l
				}
				break
			}
			return p.val(x.X, at).sub(p.val(x.Y, at))
		case token.MUL:
			if k, ok := constInt(x.Y); ok {
				return p.val(x.X, at).scale(k)
			}
			if k, ok := constInt(x.X); ok {
				return p.val(x.Y, at).scale(k)
			}
		case token.QUO:
			if k, ok := constInt(x.Y); ok && k == 2 {
				inner := p.val(x.X, at)
				a := "half(" + inner.String() + ")"
				p.halfOf[a] = inner
				return atomLin(a)
			}
		}
	case *ssa.Call:
		if arg, ok := lenArg(x); ok {
			return p.lenOf(arg, at)
		}
		if calleeName(x) == "builtin min" && len(x.Call.Args) == 2 {
			a := "min(" + p.id(x) + ")"
			return atomLin(a)
		}
		if calleeName(x) == "builtin max" && len(x.Call.Args) == 2 {
			return atomLin("max(" + p.id(x) + ")")
		}
	case *ssa.Convert:
		if !isIntType(x.Type()) || !isIntType(x.X.Type()) {
			break
		}
		inner := p.val(x.X, at)
		facts := p.factsAt(x.Block())
		from, to := isUnsigned(x.X.Type()), isUnsigned(x.Type())
		switch {
		case from == to:
			return inner
		case from && !to:
			// unsigned → signed: identity only if bounded above by something that fits (a length + const)
			if p.boundedByLength(inner, facts) {
				return inner
			}
		case !from && to:
			// signed → unsigned: identity only if >= 0
			if p.prove(inner, facts, 0) {
				return inner
			}
		}
		return atomLin("conv(" + p.id(x) + ")")
	case *ssa.Extract:
		// index of a range over a string/slice
		if nx, ok := x.Tuple.(*ssa.Next); ok && x.Index == 1 {
			return atomLin("rangeidx(" + p.id(nx) + ")")
		}
	case *ssa.ChangeType:
		return p.val(x.X, at)
	case *ssa.Field:
		return atomLin(p.fieldAtom(x.X, x.Field))
	case *ssa.UnOp:
		// a member of a local struct variable that is written as a whole once and whose member is never
		// written by itself: the member of that value, whichever load reads it
		if fa, ok := x.X.(*ssa.FieldAddr); ok && x.Op == token.MUL {
			if al, ok := fa.X.(*ssa.Alloc); ok {
				if whole := stableMember(al, fa.Field); whole != nil {
					return atomLin(p.fieldAtom(whole, fa.Field))
				}
			}
		}
	}
	return atomLin(p.id(v))
}

func (p *bprover) fieldAtom(v ssa.Value, k int) string {
	return fmt.Sprintf("fld(%s,%d)", p.id(v), k)
}

// stableMember: the cell is stored to as a whole exactly once, member k is never stored by itself and
// its address is only used for loads: the value stored as a whole.
func stableMember(al *ssa.Alloc, k int) ssa.Value {
	var whole ssa.Value
	n := 0
	for _, ref := range *al.Referrers() {
		switch r := ref.(type) {
		case *ssa.Store:
			if r.Addr != ssa.Value(al) {
				return nil
			}
			n++
			whole = r.Val
		case *ssa.FieldAddr:
			for _, rr := range *r.Referrers() {
				switch s := rr.(type) {
				case *ssa.Store:
					if s.Addr != ssa.Value(r) {
						return nil
					}
					if r.Field == k {
						return nil
					}
				case *ssa.UnOp, *ssa.DebugRef:
				default:
					if r.Field == k {
						return nil
					}
				}
			}
		case *ssa.UnOp, *ssa.DebugRef:
		default:
			return nil
		}
	}
	if n != 1 {
		return nil
	}
	return whole
}

func nonZeroAtoms(l lin) []string {
	var out []string
	for a, k := range l.t {
		if k != 0 {
			out = append(out, a)
		}
	}
	return out
}

// signedAtom: the atom is the name of an SSA value of a signed integer type
func (p *bprover) signedAtom(a string) bool {
	for v, id := range p.ids {
		if id == a {
			return isIntType(v.Type()) && !isUnsigned(v.Type())
		}
	}
	return false
}

// boundedByLength: facts ⊢ e <= len(...) + c for some length atom set (any upper bound made of lengths/consts).
func (p *bprover) boundedByLength(e lin, facts []fact) bool {
	// search facts of the form  U - e >= 0  where U consists only of len/half atoms and constants
	for _, f := range facts {
		u := f.e.add(e) // f.e = U - e  ⇒ U = f.e + e
		onlyLen := true
		// the bound is one value of a signed integer type (minus a constant): whatever it is, it fits
		// (`uint64(c) <= uint64(limit)` with limit an int that was tested >= 0)
		if nz := nonZeroAtoms(u); len(nz) == 1 && u.t[nz[0]] == 1 && u.c <= 0 && p.signedAtom(nz[0]) && len(e.t) > 0 {
			ok := true
			for a, k := range e.t {
				if f.e.t[a] != -k {
					ok = false
				}
			}
			if ok {
				return true
			}
		}
		for a, k := range u.t {
			if (strings.HasPrefix(a, "len(") || strings.HasPrefix(a, "half(")) && k >= 0 {
				continue
			}
			// a non-negative quantity subtracted from the bound only makes it smaller (len(input) - base with base >= 0)
			if k < 0 && !strings.HasPrefix(a, "len(") && p.depth < 30 {
				nonNeg := false
				for _, g := range facts {
					if len(g.e.t) == 1 && g.e.c >= 0 && g.e.t[a] > 0 {
						nonNeg = true
					}
				}
				if nonNeg {
					continue
				}
			}
			onlyLen = false
		}
		// and f.e must mention e's atoms negatively (i.e. really bound e)
		if onlyLen && len(e.t) > 0 {
			ok := true
			for a, k := range e.t {
				if f.e.t[a] != -k {
					ok = false
				}
			}
			if ok {
				return true
			}
		}
	}
	return e.isConst()
}

// ---- facts -----------------------------------------------------------------------

func (p *bprover) condFacts(cond ssa.Value, truth bool, at *ssa.BasicBlock) []fact {
	if truth && p.succBool[cond] {
		return p.succFacts[cond]
	}
	b, ok := cond.(*ssa.BinOp)
	if ok && len(p.succFacts) > 0 && (b.Op == token.EQL || b.Op == token.NEQ) {
		x, y := b.X, b.Y
		if isNilConst(x) {
			x, y = y, x
		}
		if isNilConst(y) && (b.Op == token.EQL) == truth {
			if fs, has := p.succFacts[x]; has {
				return fs
			}
		}
	}
	if !ok {
		if u, ok := cond.(*ssa.UnOp); ok && u.Op == token.NOT {
			return p.condFacts(u.X, !truth, at)
		}
		// value-context short circuit: phi[false, …, v] = (… && v), phi[true, …, v] = (… || v).
		// The phi has the asked truth value only when control came through the
		// edge that carries v, with v having that value; the facts of that
		// predecessor (the earlier operands) hold as well.
		if ph, ok := cond.(*ssa.Phi); ok && p.depth < 30 {
			j := -1
			for i, e := range ph.Edges {
				if k, isC := e.(*ssa.Const); isC && k.Value != nil && (k.Value.String() == "true") == !truth {
					continue
				}
				if j >= 0 {
					return nil
				}
				j = i
			}
			if j < 0 {
				return nil
			}
			pred := ph.Block().Preds[j]
			out := append([]fact{}, p.factsAt(pred)...)
			return append(out, p.condFacts(ph.Edges[j], truth, pred)...)
		}
		return nil
	}
	if !isIntType(b.X.Type()) {
		return nil
	}
	x, y := p.val(b.X, at), p.val(b.Y, at)
	op := b.Op
	if !truth {
		switch op {
		case token.LSS:
			op = token.GEQ
		case token.LEQ:
			op = token.GTR
		case token.GTR:
			op = token.LEQ
		case token.GEQ:
			op = token.LSS
		case token.EQL:
			op = token.NEQ
		case token.NEQ:
			op = token.EQL
		}
	}
	why := fmt.Sprintf("%s %s %s", x, op, y)
	switch op {
	case token.LSS:
		return []fact{{y.sub(x).add(konst(-1)), why}}
	case token.LEQ:
		return []fact{{y.sub(x), why}}
	case token.GTR:
		return []fact{{x.sub(y).add(konst(-1)), why}}
	case token.GEQ:
		return []fact{{x.sub(y), why}}
	case token.EQL:
		return []fact{{x.sub(y), why}, {y.sub(x), why}}
	case token.NEQ:
		// x != 0 for unsigned x ⇒ x >= 1 ; for lengths too
		if y.isConst() && y.c == 0 {
			nonneg := isUnsigned(b.X.Type())
			for a := range x.t {
				if strings.HasPrefix(a, "len(") {
					nonneg = true
				}
			}
			if nonneg {
				return []fact{{x.add(konst(-1)), why}}
			}
		}
	}
	return nil
}

func (p *bprover) factsAt(b *ssa.BasicBlock) []fact {
	var out []fact
	out = append(out, p.global...)
	for d := b; d.Idom() != nil; d = d.Idom() {
		dom := d.Idom()
		iff, ok := terminator(dom).(*ssa.If)
		if !ok {
			continue
		}
		// d is the child of dom on the dominator tree towards b.  The condition is known iff d is a
		// successor of dom reached ONLY through that edge.
		for k, s := range dom.Succs {
			if s != d {
				continue
			}
			if dom.Succs[0] == dom.Succs[1] {
				continue
			}
			onlyEdge := true
			for _, pr := range d.Preds {
				if pr != dom && !d.Dominates(pr) {
					onlyEdge = false
				}
			}
			if onlyEdge {
				out = append(out, p.condFacts(iff.Cond, k == 0, d)...)
			}
		}
	}
	return out
}

// edgeFacts: facts valid when control goes pred → succ.
func (p *bprover) edgeFacts(pred, succ *ssa.BasicBlock) []fact {
	out := p.factsAt(pred)
	if iff, ok := terminator(pred).(*ssa.If); ok && pred.Succs[0] != pred.Succs[1] {
		for k, s := range pred.Succs {
			if s == succ {
				out = append(out, p.condFacts(iff.Cond, k == 0, pred)...)
			}
		}
	}
	return out
}

func (p *bprover) axiomFacts(goal lin, facts []fact) []fact {
	var out []fact
	seen := map[string]bool{}
	add := func(l lin) {
		for a := range l.t {
			if seen[a] {
				continue
			}
			seen[a] = true
			switch {
			case strings.HasPrefix(a, "len("):
				out = append(out, fact{atomLin(a), "len >= 0"})
			case strings.HasPrefix(a, "half("):
				if inner, ok := p.halfOf[a]; ok {
					// inner - 2h >= 0 ; 2h + 1 - inner >= 0 ; h >= 0 when inner >= 0 (assumed for lengths)
					out = append(out, fact{inner.sub(atomLin(a).scale(2)), "2*half <= x"})
					out = append(out, fact{atomLin(a).scale(2).add(konst(1)).sub(inner), "x <= 2*half+1"})
					out = append(out, fact{atomLin(a), "half >= 0"})
				}
			case strings.HasPrefix(a, "rangeidx("):
				out = append(out, fact{atomLin(a), "range index >= 0"})
			}
		}
	}
	add(goal)
	for _, f := range facts {
		add(f.e)
	}
	return out
}

// prove goal >= 0 from facts (+ axioms) by searching non-negative combinations of up to 3 facts.
func (p *bprover) prove(goal lin, facts []fact, depth int) bool {
	if goal.isConst() {
		return goal.c >= 0
	}
	if p.proveLinear(goal, facts, depth) {
		return true
	}
	// the length of a slice that is one of several at a join (`if len(b) > 8 { b = b[len(b)-8:] }`): the goal
	// holds if it holds for each incoming slice with what is known on that way in
	if depth < 3 {
		for atom, k := range goal.t {
			ph, isPhi := p.slicePhis[atom]
			if !isPhi || k == 0 {
				continue
			}
			rest := goal.sub(atomLin(atom).scale(k))
			all := true
			for i, e := range ph.Edges {
				if e == ssa.Value(ph) {
					continue
				}
				pred := ph.Block().Preds[i]
				fs := append(append([]fact{}, facts...), p.factsAt(pred)...)
				if iff, isIf := terminator(pred).(*ssa.If); isIf && len(pred.Succs) == 2 && pred.Succs[0] != pred.Succs[1] {
					fs = append(fs, p.condFacts(iff.Cond, pred.Succs[0] == ph.Block(), pred)...)
				}
				if !p.prove(rest.add(p.lenOf(e, pred).scale(k)), fs, depth+1) {
					all = false
					break
				}
			}
			if all {
				return true
			}
		}
	}
	// max(a, b) is one of a and b: the goal holds if it holds with either in its place
	if depth < 3 {
		for atom, k := range goal.t {
			ab, isMax := p.maxes[atom]
			if !isMax || k == 0 {
				continue
			}
			rest := goal.sub(atomLin(atom).scale(k))
			if p.prove(rest.add(ab[0].scale(k)), facts, depth+1) && p.prove(rest.add(ab[1].scale(k)), facts, depth+1) {
				return true
			}
		}
	}
	return false
}

func (p *bprover) proveLinear(goal lin, facts []fact, depth int) bool {
	if goal.isConst() {
		return goal.c >= 0
	}
	all := append(append([]fact{}, facts...), p.axiomFacts(goal, facts)...)
	// keep only facts sharing an atom with the goal closure (2 rounds)
	rel := map[string]bool{}
	for a := range goal.t {
		rel[a] = true
	}
	var use []fact
	for round := 0; round < 2; round++ {
		use = use[:0]
		for _, f := range all {
			hit := false
			for a := range f.e.t {
				if rel[a] {
					hit = true
				}
			}
			if hit {
				use = append(use, f)
			}
		}
		for _, f := range use {
			for a := range f.e.t {
				rel[a] = true
			}
		}
	}
	if len(use) > 24 {
		use = use[:24]
	}
	mults := []int64{1, 2}
	check := func(r lin) bool { return r.isConst() && r.c >= 0 }
	n := len(use)
	for i := 0; i < n; i++ {
		for _, mi := range mults {
			r1 := goal.sub(use[i].e.scale(mi))
			if check(r1) {
				return true
			}
			for j := i; j < n; j++ {
				for _, mj := range mults {
					r2 := r1.sub(use[j].e.scale(mj))
					if check(r2) {
						return true
					}
					for k := j; k < n; k++ {
						r3 := r2.sub(use[k].e)
						if check(r3) {
							return true
						}
					}
				}
			}
		}
	}
	return false
}

// ---- invariants of integer phis: p >= 0 ----------------------------------------------

func (p *bprover) phiInvariants() {
	// unsigned values and assumption-table fields are >= 0 everywhere
	var phis []*ssa.Phi
	allInstrs(p.fn, func(in ssa.Instruction) {
		v, ok := in.(ssa.Value)
		if !ok {
			return
		}
		if ph, ok := in.(*ssa.Phi); ok && isIntType(ph.Type()) {
			phis = append(phis, ph)
		}
		if !isIntType(v.Type()) {
			return
		}
		if isUnsigned(v.Type()) {
			switch in.(type) {
			case *ssa.Call, *ssa.Extract, *ssa.Phi, *ssa.UnOp:
				l := p.val(v, in.Block())
				if len(l.t) == 1 && l.c == 0 {
					p.global = append(p.global, fact{l, "unsigned"})
				}
			}
		}
		// type-derived sizes (assumption table)
		if f, _ := loadedField(v); f != nil {
			switch f.Name() {
			case "size", "length", "pos", "ncols", "n":
				if f.Pkg() != nil && f.Pkg().Path() == modPath+"/dig" {
					p.global = append(p.global, fact{atomLin(p.id(v)), "assumption: dig type-derived size >= 0"})
					if l := p.val(v, in.Block()); len(l.t) == 1 && l.c == 0 {
						p.global = append(p.global, fact{l, "assumption: dig type-derived size >= 0"})
					}
					p.assume = append(p.assume, "dig."+f.Name()+" >= 0 (derived from the declared type, not from data)")
				}
			}
		}
		if fe, ok := v.(*ssa.Field); ok {
			f, _ := fieldOf(fe)
			switch f.Name() {
			case "size", "length", "pos":
				if f.Pkg() != nil && f.Pkg().Path() == modPath+"/dig" {
					p.global = append(p.global, fact{atomLin(p.id(v)), "assumption: dig type-derived size >= 0"})
					if l := p.val(v, in.Block()); len(l.t) == 1 && l.c == 0 {
						p.global = append(p.global, fact{l, "assumption: dig type-derived size >= 0"})
					}
				}
			}
		}
		if call, ok := v.(*ssa.Call); ok && calleeName(call) == "builtin min" && len(call.Call.Args) == 2 {
			m := atomLin("min(" + p.id(call) + ")")
			p.global = append(p.global, fact{p.val(call.Call.Args[0], in.Block()).sub(m), "min <= a"}, fact{p.val(call.Call.Args[1], in.Block()).sub(m), "min <= b"})
		}
		if call, ok := v.(*ssa.Call); ok && calleeName(call) == "builtin max" && len(call.Call.Args) == 2 {
			name := "max(" + p.id(call) + ")"
			m := atomLin(name)
			a, b := p.val(call.Call.Args[0], in.Block()), p.val(call.Call.Args[1], in.Block())
			p.global = append(p.global, fact{m.sub(a), "max >= a"}, fact{m.sub(b), "max >= b"})
			if p.maxes == nil {
				p.maxes = map[string][2]lin{}
			}
			p.maxes[name] = [2]lin{a, b}
		}
	})
	for _, par := range p.fn.Params {
		if isIntType(par.Type()) && isUnsigned(par.Type()) {
			p.global = append(p.global, fact{atomLin(p.id(par)), "unsigned parameter"})
		}
	}
	// inductive lower bound 0 for integer phis: greatest fixpoint of the joint invariant
	// "every candidate phi >= 0" (each incoming value is proven >= 0 assuming all candidates)
	cand := map[*ssa.Phi]bool{}
	lower := map[*ssa.Phi]int64{} // candidate invariant: phi >= lower (the least constant flowing in, at most 0)
	for _, ph := range phis {
		cand[ph] = true
		lb := int64(0)
		for _, e := range ph.Edges {
			if k, ok := constInt(e); ok {
				if _, isC := e.(*ssa.Const); isC && k < lb {
					lb = k
				}
			}
		}
		if lb < -1 {
			cand[ph] = false
		}
		lower[ph] = lb
	}
	inv := func(ph *ssa.Phi) lin { return atomLin(p.id(ph)).add(konst(-lower[ph])) }
	for changed := true; changed; {
		changed = false
		var hyp []fact
		for ph, ok := range cand {
			if ok {
				hyp = append(hyp, fact{inv(ph), "induction hypothesis"})
			}
		}
		for _, ph := range phis {
			if !cand[ph] {
				continue
			}
			for i, e := range ph.Edges {
				pred := ph.Block().Preds[i]
				facts := append(p.edgeFacts(pred, ph.Block()), hyp...)
				if !p.prove(p.val(e, pred).add(konst(-lower[ph])), facts, 0) {
					cand[ph] = false
					changed = true
					break
				}
			}
		}
	}
	for _, ph := range phis {
		if cand[ph] {
			p.global = append(p.global, fact{inv(ph), "phi >= its least start value (inductive)"})
		}
	}
	// a position that is chosen among values each of which is inside a byte-slice parameter on its own
	// edge (`start := 0; if dynamic { if len(input) < 32 { return }; start = 32 }`): phi <= len(parameter),
	// proven per incoming edge with the facts of that edge (and inductively around loops)
	for _, par := range p.fn.Params {
		if !isByteSeq(par.Type()) {
			continue
		}
		if _, isPtr := par.Type().Underlying().(*types.Pointer); isPtr {
			continue
		}
		ucand := map[*ssa.Phi]bool{}
		for _, ph := range phis {
			ucand[ph] = cand[ph] // only positions known to be >= 0
		}
		uinv := func(ph *ssa.Phi) lin { return p.lenOf(par, ph.Block()).sub(atomLin(p.id(ph))) }
		for changed := true; changed; {
			changed = false
			var hyp []fact
			for _, ph := range phis {
				if ucand[ph] {
					hyp = append(hyp, fact{uinv(ph), "induction hypothesis"})
				}
			}
			for _, ph := range phis {
				if !ucand[ph] {
					continue
				}
				for i, e := range ph.Edges {
					pred := ph.Block().Preds[i]
					facts := append(append(p.edgeFacts(pred, ph.Block()), p.factsAt(pred)...), hyp...)
					if !p.prove(p.lenOf(par, pred).sub(p.val(e, pred)), facts, 0) {
						ucand[ph] = false
						changed = true
						break
					}
				}
			}
		}
		for _, ph := range phis {
			if ucand[ph] {
				p.global = append(p.global, fact{uinv(ph), "phi <= len(" + par.Name() + ") on every incoming edge (inductive)"})
			}
		}
	}
}

// ---- obligations -----------------------------------------------------------------------

type boundObl struct {
	in     ssa.Instruction
	desc   string
	ok     bool
	detail string
}

func isByteSeq(t types.Type) bool {
	switch u := t.Underlying().(type) {
	case *types.Slice:
		b, ok := u.Elem().Underlying().(*types.Basic)
		return ok && (b.Kind() == types.Byte || b.Kind() == types.Uint8)
	case *types.Basic:
		return u.Info()&types.IsString != 0
	case *types.Pointer:
		return isByteSeq(u.Elem())
	case *types.Array: // a fixed buffer (`var word [8]byte; word[8-len(b):]`)
		b, ok := u.Elem().Underlying().(*types.Basic)
		return ok && (b.Kind() == types.Byte || b.Kind() == types.Uint8)
	}
	return false
}

// byteTyped: v is a byte, or a byte widened to another integer type
func byteTyped(v ssa.Value) bool {
	for i := 0; i < 3; i++ {
		if b, ok := v.Type().Underlying().(*types.Basic); ok && (b.Kind() == types.Uint8 || b.Kind() == types.Byte) {
			return true
		}
		switch x := v.(type) {
		case *ssa.Convert:
			v = x.X
		case *ssa.ChangeType:
			v = x.X
		default:
			return false
		}
	}
	return false
}

// arrayLen: the length of an array value or of the array a pointer points to
func arrayLen(t types.Type) (int64, bool) {
	switch u := t.Underlying().(type) {
	case *types.Array:
		return u.Len(), true
	case *types.Pointer:
		if a, ok := u.Elem().Underlying().(*types.Array); ok {
			return a.Len(), true
		}
	}
	return 0, false
}

// proveWithMemPhi proves goal >= 0 at block b, case-splitting when the operand slice is a memory phi.
func (p *bprover) proveAt(goalOf func(at *ssa.BasicBlock) lin, b *ssa.BasicBlock) bool {
	return p.prove(goalOf(b), p.factsAt(b), 0)
}

func (p *bprover) obligations() []boundObl {
	return p.obligationsFor(isByteSeq)
}

func (p *bprover) obligationsFor(isByteSeq func(types.Type) bool) []boundObl {
	var out []boundObl
	allInstrs(p.fn, func(in ssa.Instruction) {
		b := in.Block()
		switch x := in.(type) {
		case *ssa.Slice:
			if !isByteSeq(x.X.Type()) {
				return
			}
			out = append(out, p.sliceObl(x, b))
		case *ssa.IndexAddr:
			if !isByteSeq(x.X.Type()) {
				return
			}
			out = append(out, p.indexObl(in, x.X, x.Index, b))
		case *ssa.Lookup:
			if _, isMap := x.X.Type().Underlying().(*types.Map); isMap || !isByteSeq(x.X.Type()) {
				return
			}
			out = append(out, p.indexObl(in, x.X, x.Index, b))
		case *ssa.Index:
			if !isByteSeq(x.X.Type()) {
				return
			}
			out = append(out, p.indexObl(in, x.X, x.Index, b))
		case *ssa.MakeSlice:
			if !isByteSeq(x.Type()) {
				return
			}
			ok := p.prove(p.val(x.Len, b), p.factsAt(b), 0)
			out = append(out, boundObl{in, "make([]byte, n): n >= 0", ok, "n = " + p.val(x.Len, b).String()})
		case *ssa.Call:
			if calleeName(x) == "encoding/hex.Decode" {
				dst, src := x.Call.Args[0], x.Call.Args[1]
				ls := p.lenOf(src, b)
				h := "half(" + ls.String() + ")"
				p.halfOf[h] = ls
				goal := p.lenOf(dst, b).sub(atomLin(h))
				ok := p.prove(goal, p.factsAt(b), 0)
				out = append(out, boundObl{in, "hex.Decode(dst, src): len(dst) >= len(src)/2", ok, goal.String() + " >= 0"})
			}
		}
	})
	return out
}

func (p *bprover) upperOf(x ssa.Value, b *ssa.BasicBlock) (lin, *memVersion) {
	if u, ok := x.(*ssa.UnOp); ok {
		if mv, ok := p.loadVer[u]; ok && mv.phi != nil {
			return lin{}, mv
		}
	}
	return p.lenOf(x, b), nil
}

func (p *bprover) sliceObl(x *ssa.Slice, b *ssa.BasicBlock) boundObl {
	facts := p.factsAt(b)
	lo := konst(0)
	if x.Low != nil {
		lo = p.val(x.Low, b)
	}
	desc := "slice " + strings.TrimSpace(x.String())
	var parts []string
	ok := true
	// 0 <= lo
	if !p.prove(lo, facts, 0) {
		ok = false
		parts = append(parts, "cannot prove low >= 0 (low = "+lo.String()+")")
	}
	upper, mphi := p.upperOf(x.X, b)
	hiGiven := x.High != nil
	var hi lin
	if hiGiven {
		hi = p.val(x.High, b)
		if !p.prove(hi.sub(lo), facts, 0) {
			ok = false
			parts = append(parts, "cannot prove low <= high ("+hi.sub(lo).String()+" >= 0)")
		}
	} else {
		hi = lo // only lo <= len needs proving
	}
	if mphi != nil {
		// case split over the incoming memory versions
		for pred, mv := range mphi.phi {
			ef := p.edgeFacts(pred, p.memPhiBlock(mphi))
			u := p.lenOfMem(mv, pred)
			if !p.prove(u.sub(hi), append(ef, facts...), 0) {
				ok = false
				parts = append(parts, fmt.Sprintf("cannot prove high <= len on the path through block %d (%s >= 0)", pred.Index, u.sub(hi).String()))
			}
		}
	} else if !p.prove(upper.sub(hi), facts, 0) {
		// the sliced value is a merge of two slices (`if short > 0 { hb = append(hb, …) }; hb[:n]`):
		// case split over the incoming values, each with the facts of its edge
		split := false
		if ph, isPhi := stripConv(x.X).(*ssa.Phi); isPhi && len(ph.Edges) > 0 {
			split = true
			for i, ev := range ph.Edges {
				pred := ph.Block().Preds[i]
				ef := p.edgeFacts(pred, ph.Block())
				u := p.lenOf(ev, pred)
				if !p.prove(u.sub(hi), append(ef, facts...), 0) {
					split = false
				}
			}
		}
		if !split {
			ok = false
			parts = append(parts, "cannot prove high <= len ("+upper.sub(hi).String()+" >= 0)")
		}
	}
	return boundObl{x, desc, ok, strings.Join(parts, "; ")}
}

func (p *bprover) memPhiBlock(mv *memVersion) *ssa.BasicBlock {
	for b, in := range p.memIn {
		if in == mv {
			return b
		}
	}
	return p.fn.Blocks[0]
}

func (p *bprover) indexObl(in ssa.Instruction, x, idx ssa.Value, b *ssa.BasicBlock) boundObl {
	desc := "index " + strings.TrimSpace(in.String())
	// index produced by ranging over the same sequence is in range by the language
	if ex, ok := idx.(*ssa.Extract); ok && ex.Index == 1 {
		if nx, ok := ex.Tuple.(*ssa.Next); ok {
			if rg, ok := nx.Iter.(*ssa.Range); ok && sameVar(rg.X, x) {
				return boundObl{in, desc, true, "index from ranging over the same sequence"}
			}
		}
	}
	facts := p.factsAt(b)
	i := p.val(idx, b)
	// a value of type byte lies in [0, 255] (a table of 256 entries indexed by a character)
	if byteTyped(idx) {
		facts = append(append([]fact{}, facts...), fact{i, "a byte is >= 0"}, fact{konst(255).sub(i), "a byte is <= 255"})
	}
	var parts []string
	ok := true
	if !p.prove(i, facts, 0) {
		ok = false
		parts = append(parts, "cannot prove index >= 0 ("+i.String()+")")
	}
	u := p.lenOf(x, b)
	if !p.prove(u.sub(i).add(konst(-1)), facts, 0) {
		ok = false
		parts = append(parts, "cannot prove index < len ("+u.sub(i).add(konst(-1)).String()+" >= 0)")
	}
	return boundObl{in, desc, ok, strings.Join(parts, "; ")}
}

// callVersion: the memory version after a call that receives the tracked
// pointer: the call's own result when the callee hands back exactly what it
// stored through the pointer (hb.resize(n)), an unknown version otherwise;
// nil when the call does not receive the pointer.
func (p *bprover) callVersion(call *ssa.Call) *memVersion {
	if p.cell == nil {
		return nil
	}
	gets := false
	for _, a := range call.Call.Args {
		if a == ssa.Value(p.cell) {
			gets = true
		}
	}
	if !gets {
		return nil
	}
	if p.callVers == nil {
		p.callVers = map[*ssa.Call]*memVersion{}
	}
	if mv, ok := p.callVers[call]; ok {
		return mv
	}
	var mv *memVersion
	if h := staticCallee(call); h != nil && len(call.Call.Args) > 0 && call.Call.Args[0] == ssa.Value(p.cell) && storesResultThroughRecv(h) {
		mv = &memVersion{val: call, id: "call:" + p.id(call)}
	} else if h := staticCallee(call); h != nil && len(call.Call.Args) > 0 && call.Call.Args[0] == ssa.Value(p.cell) && setsLenOfRecvTo(h) > 0 {
		mv = &memVersion{id: "resized:" + p.id(call), lenVal: call.Call.Args[setsLenOfRecvTo(h)]}
	} else {
		mv = &memVersion{id: "clobber:" + p.id(call)}
	}
	p.callVers[call] = mv
	return mv
}

// cellVersion: the last instruction that may have written the cell before the load (a store to it, or a call
// that receives its address), when that is the same on every path: it dominates the load and no other such
// instruction lies between the two.  nil when there is no unique one.
func cellVersion(al *ssa.Alloc, load *ssa.UnOp) ssa.Instruction {
	var clobbers []ssa.Instruction
	addrs := map[ssa.Value]bool{al: true}
	for _, ref := range *al.Referrers() {
		if mi, ok := ref.(*ssa.MakeInterface); ok {
			addrs[mi] = true
		}
	}
	for a := range addrs {
		for _, ref := range *a.Referrers() {
			switch x := ref.(type) {
			case *ssa.Store:
				if x.Addr == ssa.Value(al) {
					clobbers = append(clobbers, x)
				} else if x.Val == a {
					return nil // the address is stored somewhere: anything may write the cell
				}
			case ssa.CallInstruction:
				if _, isVal := x.(ssa.Value); isVal {
					clobbers = append(clobbers, x)
				} else {
					return nil // go / defer with the address
				}
			case *ssa.UnOp, *ssa.MakeInterface, *ssa.DebugRef:
			default:
				return nil
			}
		}
	}
	var chosen ssa.Instruction
	for _, c := range clobbers {
		if !dominatesInstr(c, load) {
			continue
		}
		if chosen == nil || dominatesInstr(chosen, c) {
			chosen = c
		}
	}
	if chosen == nil {
		return nil
	}
	if _, isVal := chosen.(ssa.Value); !isVal {
		// a store has no value of its own to name the version by: use the stored value's producer when it is an instruction
		st := chosen.(*ssa.Store)
		if vi, ok := st.Val.(ssa.Instruction); ok {
			_ = vi
		}
	}
	for _, c := range clobbers {
		if c == chosen {
			continue
		}
		r1, _ := reach(siteOf(chosen), isInstr(c), nil)
		r2, _ := reach(siteOf(c), isInstr(load), nil)
		if r1 && r2 {
			return nil
		}
	}
	if _, isVal := chosen.(ssa.Value); !isVal {
		return nil
	}
	return chosen
}
