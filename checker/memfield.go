package main

// memfield.go: reaching definitions for one field of a local struct variable
// (memory SSA in miniature).  `target := helper(); if c { target.num = x };
// use(target.num)` – the value used is a join of the field of the helper's
// result and x.  Lets value rules follow loose variables that a refactoring
// gathered into a small struct.

import (
	"golang.org/x/tools/go/ssa"
)

type memDef struct {
	store ssa.Instruction // *ssa.Store to the field address or to the whole variable; nil for a join / entry
	whole bool            // store is a whole-struct assignment
	join  *ssa.BasicBlock
	preds []*memDef // per predecessor of join (same order as join.Preds)
	entry bool      // no definition yet (zero value)
}

type memField struct {
	al  *ssa.Alloc
	fld int
	in  map[*ssa.BasicBlock]*memDef
	out map[*ssa.BasicBlock]*memDef
	st  map[ssa.Instruction]*memDef
}

func (m *memField) isDef(in ssa.Instruction) (bool, bool) {
	st, ok := in.(*ssa.Store)
	if !ok {
		return false, false
	}
	if st.Addr == ssa.Value(m.al) {
		return true, true
	}
	if fa, ok := st.Addr.(*ssa.FieldAddr); ok && fa.X == ssa.Value(m.al) && fa.Field == m.fld {
		return true, false
	}
	return false, false
}

func newMemField(al *ssa.Alloc, fld int) *memField {
	m := &memField{al: al, fld: fld, in: map[*ssa.BasicBlock]*memDef{}, out: map[*ssa.BasicBlock]*memDef{}, st: map[ssa.Instruction]*memDef{}}
	fn := al.Parent()
	entry := &memDef{entry: true}
	joins := map[*ssa.BasicBlock]*memDef{}
	for _, b := range fn.Blocks {
		if len(b.Preds) > 1 {
			joins[b] = &memDef{join: b, preds: make([]*memDef, len(b.Preds))}
		}
	}
	// iterate: in[b] = the single pred's out, or the join node; out[b] = last def in b or in[b]
	for changed := true; changed; {
		changed = false
		for _, b := range fn.Blocks {
			var in *memDef
			switch {
			case len(b.Preds) == 0:
				in = entry
			case len(b.Preds) == 1:
				in = m.out[b.Preds[0]]
			default:
				j := joins[b]
				same := true
				var first *memDef
				for i, p := range b.Preds {
					j.preds[i] = m.out[p]
					if i == 0 {
						first = m.out[p]
					} else if m.out[p] != first {
						same = false
					}
				}
				if same && first != nil && first != j {
					in = first
				} else {
					in = j
				}
			}
			if in == nil {
				continue
			}
			cur := in
			for _, ins := range b.Instrs {
				if ok, whole := m.isDef(ins); ok {
					d := m.st[ins]
					if d == nil {
						d = &memDef{store: ins, whole: whole}
						m.st[ins] = d
					}
					cur = d
				}
			}
			if m.in[b] != in || m.out[b] != cur {
				m.in[b], m.out[b] = in, cur
				changed = true
			}
		}
	}
	return m
}

// At: the definition of the field that reaches instruction `at`.
func (m *memField) At(at ssa.Instruction) *memDef {
	b := at.Block()
	cur := m.in[b]
	for _, ins := range b.Instrs {
		if ins == at {
			break
		}
		if ok, _ := m.isDef(ins); ok {
			cur = m.st[ins]
		}
	}
	return cur
}
